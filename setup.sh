#!/bin/bash
# Builds the verification harness offline from files on disk only.
set -e
cd "$(dirname "$0")"
export CARGO_TARGET_DIR="$PWD/.target" CARGO_NET_OFFLINE=true
for c in harness/vh harness/zoo harness/vt; do
  (cd "$c" && cargo build --offline --quiet)
done
echo "setup ok"
