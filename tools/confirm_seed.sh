#!/bin/bash
# usage: confirm_seed.sh <seed-dir-name> <worktree> <test-name>
# Confirms on a scratch worktree at /repo's HEAD: demo fails with the patch, passes without,
# and the pinned suite still passes with the patch. Writes seeded/<dir>/confirm.log
D=/verif/seeded/$1; WT=$2; T=$3
LOG=$D/confirm.log; : > $LOG
cd $WT || exit 2
git checkout -q -- . ; git clean -fdq tests src codegen >/dev/null 2>&1
git checkout -q --detach $(git -C /repo rev-parse HEAD) || exit 2
echo "base: $(git rev-parse --short HEAD)" >> $LOG
copy_demo() { if [ -d $D/demo/tests ]; then cp -r $D/demo/tests/. tests/; else cp $D/demo/*.rs tests/; fi; if [ -d $D/demo/features ]; then cp -r $D/demo/features/. tests/features/; fi; }
git apply $D/patch.diff || { echo "PATCH FAILED" >> $LOG; exit 2; }
copy_demo
RUST_BACKTRACE=0 cargo test --offline ${FEATURES:+--features $FEATURES} --test $T -- --test-threads=1 > /tmp/confirm_$1_with.log 2>&1; W=$?
echo "demo with patch: exit $W (expected != 0)" >> $LOG
grep -E "^test result|panicked at|assert" /tmp/confirm_$1_with.log | head -5 >> $LOG
git checkout -q -- src codegen
RUST_BACKTRACE=0 cargo test --offline ${FEATURES:+--features $FEATURES} --test $T -- --test-threads=1 > /tmp/confirm_$1_without.log 2>&1; WO=$?
echo "demo without patch: exit $WO (expected 0)" >> $LOG
grep -E "^test result" /tmp/confirm_$1_without.log | head -3 >> $LOG
git clean -fdq tests >/dev/null 2>&1; git checkout -q -- tests
git apply $D/patch.diff
cargo test --workspace --no-fail-fast --offline > /tmp/confirm_$1_suite.log 2>&1; S=$?
echo "pinned suite with patch: exit $S (expected 0); $(grep -c '^test result: ok' /tmp/confirm_$1_suite.log) ok result lines, $(grep -c 'FAILED\|^test result: FAILED' /tmp/confirm_$1_suite.log) failed" >> $LOG
git checkout -q -- src codegen
if [ $W -ne 0 ] && [ $WO -eq 0 ] && [ $S -eq 0 ]; then echo "CONFIRMED" >> $LOG; else echo "NOT CONFIRMED" >> $LOG; fi
tail -1 $LOG
