#!/usr/bin/env python3
"""Print the prompt for a bug-seeding sub-agent: property text + scratch worktree only."""
import json, sys
pid = sys.argv[1]
variant = sys.argv[2] if len(sys.argv) > 2 else ""
hint = sys.argv[3] if len(sys.argv) > 3 else ""
for l in open('/verif/properties.jsonl'):
    p = json.loads(l)
    if p['id'] == pid:
        break
else:
    sys.exit("no such property")
wt = f"/tmp/wt/{pid}{variant}"
out = f"/tmp/seed_out/{pid}{variant}"
hint = (hint + "\n") if hint else ""
print(f"""You are helping to evaluate a test oracle for the Rust crate `cucumber` (cucumber-rs: a Cucumber/Gherkin BDD test framework). You have your own scratch git worktree of the crate at {wt} (a checkout of the pinned commit; it builds offline; a pre-warmed build directory is at {wt}/target). Work ONLY inside {wt} and {out}. Never touch /repo or /verif, and do not read anything under /verif. There is no network: always pass --offline to cargo.

The crate is supposed to satisfy this semantic property:

  Title: {p['title']}
  Statement: {p['statement']}
  Quantified over: {p['quantifier']['text']}

Your task: make ONE realistic source change to the crate (under {wt}/src or {wt}/codegen/src) that BREAKS this property, such that
  (a) the crate still compiles (default features and with `--features libtest,output-json,output-junit,tracing,timestamps`),
  (b) the existing pinned test suite still passes: run `cd {wt} && cargo test --workspace --no-fail-fast --offline 2>&1 | tail -40` (doctests included; this takes a few minutes) and confirm there are no failures,
  (c) the breakage needs something specific to manifest - a particular interleaving/completion order of concurrently running scenarios, a fault at a particular point, a multi-step sequence, an unusual input or configuration, or two cooperating sites that each look fine alone - NOT something ordinary use would expose at once,
  (d) it looks like a plausible mistake a maintainer could make in a refactoring or "optimisation" (an off-by-one, a dropped condition, a wrong order of two operations, a missed case), a few lines at most; do not add comments pointing at the bug.

{hint}
Then write a demonstration: a small integration test or program (for example a new file under {wt}/tests/ using the crate's public API, or a tiny binary crate under {out}/demo depending on the crate by path) that FAILS with your change and PASSES on the unmodified code. Verify both directions yourself. To flip between the two states use `git diff -- src codegen/src > /tmp/seed_out/.../my.patch; git checkout -- src codegen/src; ...; git apply my.patch` - do NOT use `git stash`: the stash is shared between all worktrees of the repository and other people work in sibling worktrees.

Deliver, in {out}/:
  - patch.diff : `git -C {wt} diff -- src codegen/src` (source change only, NOT the demo)
  - demo/ : the demonstration (test file(s) or crate) plus a one-line command to run it in a worktree
  - notes.md : what the change is, why existing tests do not notice, exactly what is needed for it to manifest, and the output you observed with and without the change.
Leave the worktree with the change applied. Be concrete and finish the whole task; report the final summary (what you changed, how it manifests, whether (a)-(d) are all confirmed) as your answer.""")
