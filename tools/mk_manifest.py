#!/usr/bin/env python3
"""Regenerates /verif/MANIFEST.json from lib/props.py (single source of truth)."""
import json, os, sys
ROOT = os.path.dirname(os.path.dirname(os.path.abspath(__file__)))
sys.path.insert(0, os.path.join(ROOT, "lib"))
import props

ALL = [f"C{n:02d}" for n in range(1, 21)]
checks = []
for pid in ALL:
    if pid not in props.PROPS:
        continue
    P = props.PROPS[pid]
    checks.append({
        "property_id": pid,
        "quick_cmd": f"./check {pid} --tier quick",
        "thorough_cmd": f"./check {pid} --tier thorough",
        "evidence_file": f"/verif/evidence/{pid}.json",
        "replay_cmd_template": f"./check {pid} --replay {{path}}",
        "engine": P.get("engine_name", "vrun"),
        "level_claimed": {
            "category": P.get("level", "exploration"),
            "text": P.get("level_text", "Runtime monitoring: the real crate is executed on seeded, hostile workloads while an oracle written from the property statement watches the event stream / callback log / writer output. Holds only on the executions observed; evidence lists how many and how diverse."),
            "design_ref": f"DESIGN.md section 3, {pid}",
        },
        "level_note": "; ".join(P.get("assumptions", [])[:3]),
        "technique": P.get("technique", "runtime monitoring: trace oracle over recorded executions of the real code under a seeded gate scheduler"),
    })
na = [{"property_id": pid, "reason": props.NOT_APPLICABLE.get(pid, "monitor not built yet in this round (planned; see DESIGN.md)")}
      for pid in ALL if pid not in props.PROPS]
m = {
    "version": 1,
    "setup_cmd": "./setup.sh",
    "hooks": {
        "guard": "cucumber_verif",
        "enable": "no source hooks are needed: every observation point is public API, so checks build /repo as is (guard reserved as `--cfg cucumber_verif`, unused)",
        "baseline_off_cmd": "cd /repo && cargo test --workspace --no-fail-fast --offline",
        "source_commits": [],
        "add_only": True,
    },
    "engines": props.ENGINES,
    "checks": checks,
    "not_applicable": na,
    "notes": "Family: runtime monitoring and sanitizers. ./check <id> builds the harness against /repo's working tree (path dependency), runs sharded seeded workloads on the real crate, evaluates trace oracles, classifies violations against known_findings.jsonl and writes evidence/<id>.json. Exit 0 held / 1 VIOLATION / 2 inconclusive.",
}
json.dump(m, open(os.path.join(ROOT, "MANIFEST.json"), "w"), indent=1)
print("wrote MANIFEST.json:", len(checks), "checks,", len(na), "not_applicable")
