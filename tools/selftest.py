#!/usr/bin/env python3
"""Runs the checks against every seeded mutant in /verif/seeded/.

For each seed: git -C /repo apply patch.diff; ./check <props> --tier quick; git -C /repo checkout -- .
Records in seeded/<dir>/meta.json which check caught it and with which signatures.
usage: selftest.py [seed-dir-name ...]   (default: all)
"""
import json, os, re, shutil, subprocess, sys, time
ROOT = os.path.dirname(os.path.dirname(os.path.abspath(__file__)))
SEEDED = os.path.join(ROOT, "seeded")


def sh(cmd, **kw):
    return subprocess.run(cmd, shell=True, text=True, stdout=subprocess.PIPE, stderr=subprocess.STDOUT, **kw)


def main():
    names = sys.argv[1:] or sorted(d for d in os.listdir(SEEDED) if os.path.isdir(os.path.join(SEEDED, d)))
    if sh("git -C /repo status --porcelain").stdout.strip():
        sys.exit("refusing: /repo has uncommitted changes")
    ev_backup = os.path.join(ROOT, ".work", "evidence_backup")
    shutil.rmtree(ev_backup, ignore_errors=True)
    shutil.copytree(os.path.join(ROOT, "evidence"), ev_backup)
    summary = []
    try:
        for name in names:
            d = os.path.join(SEEDED, name)
            meta_p = os.path.join(d, "meta.json")
            meta = json.load(open(meta_p)) if os.path.exists(meta_p) else {}
            if meta.get("obsolete"):
                summary.append((name, "OBSOLETE", meta["obsolete"][:120]))
                continue
            props = meta.get("checks") or [name.split("-")[0]]
            r = sh(f"git -C /repo apply {d}/patch.diff")
            if r.returncode != 0:
                summary.append((name, "PATCH-DOES-NOT-APPLY", r.stdout.strip()[:200]))
                sh("git -C /repo checkout -- .")
                continue
            res = {}
            try:
                for p in props:
                    t = time.time()
                    c = sh(f"./check {p} --tier quick", cwd=ROOT)
                    sigs = sorted(set(re.findall(r"^  ([\w:.<>|()\-, ]+?): ", c.stdout, re.M)))
                    viol = re.findall(r"^VIOLATION property=(\S+)", c.stdout, re.M)
                    res[p] = {"exit": c.returncode, "violation_lines": len(viol), "signatures": sigs[:12], "wall_s": round(time.time() - t, 1)}
            finally:
                sh("git -C /repo checkout -- .")
            caught = [p for p, v in res.items() if v["exit"] == 1 and v["violation_lines"] > 0]
            meta["detected_by"] = {"base": sh("git -C /repo rev-parse --short HEAD").stdout.strip(), "results": res, "caught": caught}
            json.dump(meta, open(meta_p, "w"), indent=1)
            summary.append((name, "CAUGHT by " + ",".join(caught) if caught else "MISSED", {p: v["signatures"][:3] for p, v in res.items()}))
    finally:
        sh("git -C /repo checkout -- .")
        shutil.rmtree(os.path.join(ROOT, "evidence"), ignore_errors=True)
        shutil.copytree(ev_backup, os.path.join(ROOT, "evidence"))
        shutil.rmtree(os.path.join(ROOT, "replays"), ignore_errors=True)
    for s in summary:
        print(*s)


if __name__ == "__main__":
    main()
