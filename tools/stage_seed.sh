#!/bin/bash
# usage: stage_seed.sh <ID> <dir-name> <demo-test-name> "<what it breaks>" "<what it needs>" [extra checks...]
# Copies /tmp/seed_out/<ID> into /verif/seeded/<dir-name>, confirms it on worktree /tmp/wt/<ID>, writes meta.json, runs selftest.
set -u
ID=$1; NAME=$2; TEST=$3; WHAT=$4; NEEDS=$5; shift 5; EXTRA="$*"
D=/verif/seeded/$NAME
mkdir -p $D/demo
cp -r /tmp/seed_out/$ID/demo/. $D/demo/
cp /tmp/seed_out/$ID/notes.md $D/notes.md 2>/dev/null
cp /tmp/seed_out/$ID/patch.diff $D/patch.orig.diff
[ -f $D/patch.diff ] || cp /tmp/seed_out/$ID/patch.diff $D/patch.diff
/verif/tools/confirm_seed.sh $NAME /tmp/wt/$ID $TEST
python3 - "$D" "${NAME%%-*}" "$WHAT" "$NEEDS" $EXTRA <<'PY'
import json,sys,os
d,p,what,needs,*extra=sys.argv[1:]
meta={'property':p,'breaks':what,'needs_to_manifest':needs,'origin':'independent sub-agent given only the property text and a scratch worktree',
      'checks':[p]+extra,'confirmed':open(os.path.join(d,'confirm.log')).read().strip().split('\n'),
      'patch':'patch.diff (applies to the current tree; patch.orig.diff = as delivered)','demonstration':'demo/ (integration test; fails with the patch, passes without)'}
json.dump(meta,open(os.path.join(d,'meta.json'),'w'),indent=1)
PY
tail -1 $D/confirm.log
