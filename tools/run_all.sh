#!/bin/bash
# usage: run_all.sh [quick|thorough] [seed]   - runs every check, prints one line per property
TIER=${1:-quick}; SEED=${2:-1}
cd "$(dirname "$0")/.."
[ -d .target ] || ./setup.sh
for n in $(seq -w 1 20); do
  p=C$n
  s=$(date +%s)
  out=$(./check $p --tier $TIER --seed $SEED 2>&1); rc=$?
  e=$(( $(date +%s) - s ))
  echo "$p rc=$rc ${e}s :: $(echo "$out" | grep -E '^\[C|^VIOLATION|^INCONCLUSIVE|HARNESS' | tr '\n' ' ' | cut -c1-400)"
done
