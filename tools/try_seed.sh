#!/bin/bash
# usage: try_seed.sh <patch.diff> <profile> [count] [seed]  -- applies patch to /repo, runs vrun, reverts
set -u
P=$1; PROF=$2; N=${3:-800}; SEED=${4:-5}
cd /repo || exit 2
if ! git apply --check "$P" 2>/dev/null; then echo "PATCH DOES NOT APPLY: $P"; exit 3; fi
git apply "$P" 2>/dev/null || true
git diff --stat | tail -1
export CARGO_TARGET_DIR=/verif/.target
(cd /verif/harness/vh && cargo build --offline 2>&1 | grep -E "^error" -A6)
cd /verif
for i in 0 1 2 3; do .target/debug/vh vrun --profile $PROF --seed $SEED --start $((i*N/4)) --count $((N/4)) --out /tmp/seed_$i.json & done; wait
python3 - <<'PY'
import json,glob
from collections import Counter
c=Counter(); ex={}
for f in sorted(glob.glob('/tmp/seed_[0-3].json')):
    try: d=json.load(open(f))
    except Exception as e: print(f,'missing',e); continue
    for v in d['violations']:
        k=(v['property'],v['signature']); c[k]+=1; ex.setdefault(k,(v['case_index'],v['detail'][:200]))
for k,n in c.most_common(): print(n,k,ex[k])
import os
for f in glob.glob('/tmp/seed_[0-3].json.spin'): print('SPIN',open(f).read())
PY
rm -f /tmp/seed_[0-3].json*
cd /repo && git checkout -- . && git status --short | head -3
