import json,sys
d=json.load(open(sys.argv[1]))
print(d['status'], d['evaluations'], d['counters'])
print({k:len(v) for k,v in d['nontrivial'].items()}, d['nontrivial_cases'])
from collections import Counter
c=Counter((v['property'],v['signature']) for v in d['violations'])
for k,n in c.most_common(): print(n,k)
seen=set()
for v in d['violations']:
    k=(v['property'],v['signature'])
    if k in seen: continue
    seen.add(k); print(v['property'],v['signature'],v['case_index'],v['detail'][:500])
