#!/bin/bash
# usage: multi_seed.sh <tier> <seed>...   - runs every check at each seed; prints only non-zero exits and a final tally
TIER=$1; shift
cd "$(dirname "$0")/.."
[ -d .target ] || ./setup.sh >/dev/null 2>&1
bad=0; n=0
for s in "$@"; do
  for i in $(seq -w 1 20); do
    p=C$i; n=$((n+1))
    out=$(./check $p --tier $TIER --seed $s 2>&1); rc=$?
    if [ $rc -ne 0 ]; then bad=$((bad+1)); echo "seed=$s $p rc=$rc :: $(echo "$out" | grep -E '^  |^VIOLATION|^INCONCLUSIVE|HARNESS' | head -4 | tr '\n' ' ' | cut -c1-500)"; fi
  done
  echo "seed $s done"
done
echo "TOTAL runs=$n nonzero=$bad"
