"""C14 parse-back oracles: independent parsers for the four built-in reporters.

Input: dump records written by `vh vstream --profile c14` (facts of the
normalized stream + the bytes each reporter wrote). Every reporter's document is
parsed with an independent parser (line grammar / json / xml.etree) and the
facts recovered from it are compared with the facts of the stream.
"""
import glob
import hashlib
import json
import os
import re
import xml.etree.ElementTree as ET


# --------------------------------------------------------------------------
# facts -> tree

def build(facts):
    """Ordered structure: parse errors and features -> scenario attempts."""
    out = {"errors": [], "features": [], "parsing_finished": None}
    feat = None
    rule = None
    att = None
    for f in facts:
        t = f["t"]
        if t == "parse_error":
            out["errors"].append(f)
        elif t == "parsing_finished":
            out["parsing_finished"] = f
        elif t == "feature":
            feat = {"name": f["name"], "path": f["path"], "keyword": f["keyword"],
                    "bg_keyword": f.get("bg_keyword"), "items": [], "attempts": []}
            out["features"].append(feat)
            rule = None
        elif t == "feature_end":
            feat = None
        elif t == "rule":
            rule = f
            feat["items"].append(("rule", f["name"]))
        elif t == "rule_end":
            rule = None
        elif t == "scenario":
            att = {"name": f["name"], "line": f["line"], "col": f["col"], "retry": f["retry"],
                   "rule": f["rule"], "entries": [], "keyword": f["keyword"]}
            feat["attempts"].append(att)
            feat["items"].append(("scenario", att))
        elif t == "scenario_end":
            att = None
        elif t in ("step", "hook", "log"):
            att["entries"].append(f)
    return out


def norm_path(p):
    return None if p is None else p.lstrip("/")


GLYPH = {"passed": "✔", "skipped": "?", "failed": "✘", "ambiguous": "✘", "undefined": "✘"}


def expected_text_entries(att):
    """What the plain-text rendering of one attempt must state (steps and failed hooks)."""
    exp = []
    for e in att["entries"]:
        if e["t"] == "step":
            exp.append(("step", GLYPH[e["status"]], e["bg"], e["keyword"] + e["text"],
                        e.get("payload") if e["status"] == "failed" else None))
        elif e["t"] == "hook" and e["status"] == "failed":
            exp.append(("hook", e["which"], e.get("msg")))
    return exp


# --------------------------------------------------------------------------
# plain text line grammar

RE_HOOK = re.compile(r"^\s*✘  Scenario's (Before|After) hook failed (.*)$")
RE_STEP = re.compile(r"^\s*([✔?✘])(> |  )(.*)$")
RE_RETRY = re.compile(r"^(.*) \| Retry attempt: (\d+)/(\d+)$")


def parse_text(text, feature_kw="Feature", rule_kw="Rule", sc_kw="Scenario"):
    """Returns a flat list of entries recovered from Basic's output."""
    out = []
    for line in text.split("\n"):
        if not line.strip():
            continue
        m = RE_HOOK.match(line)
        if m:
            out.append({"k": "hook", "which": m.group(1), "where": m.group(2), "diag": [], "col": len(line) - len(line.lstrip(" "))})
            continue
        m = RE_STEP.match(line)
        if m:
            out.append({"k": "step", "glyph": m.group(1), "bg": m.group(2) == "> ", "text": m.group(3), "diag": [], "col": len(line) - len(line.lstrip(" "))})
            continue
        if line.startswith("Failed to parse: "):
            out.append({"k": "parse_error", "msg": line[len("Failed to parse: "):], "diag": []})
            continue
        if line.startswith(feature_kw + ": "):
            out.append({"k": "feature", "name": line[len(feature_kw) + 2:], "diag": []})
            continue
        s = line.lstrip(" ")
        if s.startswith(rule_kw + ": ") and (not out or out[-1]["k"] not in ("step", "hook", "parse_error") or not line.startswith("      ")):
            out.append({"k": "rule", "name": s[len(rule_kw) + 2:], "diag": [], "col": len(line) - len(s)})
            continue
        if s.startswith(sc_kw + ": ") and len(line) - len(s) <= 4:
            name = s[len(sc_kw) + 2:]
            retry = None
            m = RE_RETRY.match(name)
            if m:
                name, retry = m.group(1), (int(m.group(2)), int(m.group(3)))
            out.append({"k": "scenario", "name": name, "retry": retry, "diag": [], "col": len(line) - len(s)})
            continue
        if out:
            out[-1]["diag"].append(line)
    return out


def expected_text(tree):
    exp = []
    for e in tree["errors"]:
        exp.append(("parse_error", e["msg"], e["inner"]))
    for f in tree["features"]:
        exp.append(("feature", f["name"]))
        for kind, it in f["items"]:
            if kind == "rule":
                exp.append(("rule", it))
            else:
                r = it["retry"]
                shown = (r[0], r[0] + r[1]) if r and r[0] > 0 else None
                exp.append(("scenario", it["name"], shown, it["rule"] is not None))
                exp += expected_text_entries(it)
    return exp


def check_entries(got, exp, where):
    """Compares parsed step/hook entries with the expected ones; returns problems."""
    probs = []
    if len(got) != len(exp):
        probs.append(("count", f"{where}: {len(got)} step/hook entries reported, {len(exp)} happened: got {[g.get('text') or g.get('which') for g in got]}, expected {[e[3] if e[0]=='step' else e[1] for e in exp]}"))
        return probs
    for g, e in zip(got, exp):
        if e[0] == "step":
            if g["k"] != "step" or g["glyph"] != e[1] or g["bg"] != e[2] or g["text"] != e[3]:
                probs.append(("step", f"{where}: reported {g}, happened {e}"))
            elif e[4] and e[4] != "(Could not resolve panic payload)" and not any(l.strip() and l.strip() in e[4] or e[4] in l for l in g["diag"]) and e[4] not in "\n".join(g["diag"]):
                probs.append(("message", f"{where}: failure message {e[4]!r} not in the report of step {e[3]!r}"))
        else:
            if g["k"] != "hook" or g["which"] != e[1]:
                probs.append(("hook", f"{where}: reported {g}, happened {e}"))
            elif e[2] and e[2] != "(Could not resolve panic payload)" and e[2] not in "\n".join(g["diag"]):
                probs.append(("message", f"{where}: hook failure message {e[2]!r} missing"))
    return probs


def oracle_basic(rec, tree):
    text = rec["basic"].get("ok")
    if text is None:
        return [("basic:panicked", rec["basic"].get("panic", ""))]
    got = parse_text(text)
    exp = expected_text(tree)
    probs = []
    # parse errors may be printed anywhere relative to features (forwarded at once): compare as multiset + order among themselves
    g_err = [g for g in got if g["k"] == "parse_error"]
    e_err = [e for e in exp if e[0] == "parse_error"]
    if len(g_err) != len(e_err) or any(e[1] not in "Failed to parse: " + g["msg"] + "\n".join(g["diag"]) and e[2] not in g["msg"] for g, e in zip(g_err, e_err)):
        probs.append(("basic:parse-errors", f"reported {[g['msg'] for g in g_err]}, happened {[e[1] for e in e_err]}"))
    g_rest = [g for g in got if g["k"] != "parse_error"]
    e_rest = [e for e in exp if e[0] != "parse_error"]
    # walk structure entries
    gi = 0
    pend_got, pend_exp = [], []
    where = "?"
    body_col = None

    def flush():
        nonlocal pend_got, pend_exp
        r = [("basic:" + k, m) for k, m in check_entries(pend_got, pend_exp, where)]
        pend_got, pend_exp = [], []
        return r
    ei = 0
    while ei < len(e_rest) or gi < len(g_rest):
        e = e_rest[ei] if ei < len(e_rest) else None
        g = g_rest[gi] if gi < len(g_rest) else None
        if e is not None and e[0] in ("step", "hook"):
            pend_exp.append(e)
            ei += 1
            continue
        if g is not None and g["k"] in ("step", "hook"):
            if body_col is not None and g.get("col") != body_col and not any(p[0] == "basic:indentation" for p in probs):
                probs.append(("basic:indentation", f"{where}: {g['k']} line {g.get('text') or g.get('which')!r} printed at column {g.get('col')}, expected {body_col}"))
            pend_got.append(g)
            gi += 1
            continue
        probs += flush()
        if e is None or g is None:
            probs.append(("basic:structure", f"report has {len(g_rest)} entries, stream {len(e_rest)}; unmatched: got={g} expected={e}"))
            break
        ok = (g["k"] == e[0] and g["name"] == e[1] and (e[0] != "scenario" or g["retry"] == e[2]))
        if not ok:
            probs.append(("basic:structure", f"reported {g['k']} {g.get('name')!r} retry={g.get('retry')}, stream has {e}"))
            break
        where = f"{e[0]} {e[1]!r}"
        # indentation is the only carrier of rule membership in the plain report (layout of the
        # crate's golden files): feature and rule headers at column 0, a scenario header at 2
        # (feature level) or 4 (inside a rule), its steps and failed hooks one column further
        if e[0] == "rule" and g.get("col") != 0:
            probs.append(("basic:indentation", f"{where} printed at column {g.get('col')}, rule headers belong at column 0"))
        if e[0] == "scenario":
            want = 4 if e[3] else 2
            if g.get("col") != want:
                probs.append(("basic:indentation", f"{where} ({'inside a rule' if e[3] else 'feature level'}) printed at column {g.get('col')}, expected {want}"))
            body_col = want + 1
        ei += 1
        gi += 1
    probs += flush()
    return probs


# --------------------------------------------------------------------------
# libtest JSON lines

def oracle_libtest(rec, tree):
    text = rec["libtest"].get("ok")
    if text is None:
        return [("libtest:panicked", rec["libtest"].get("panic", ""))]
    probs = []
    lines = []
    for l in text.split("\n"):
        if not l.strip():
            continue
        try:
            lines.append(json.loads(l))
        except Exception as e:  # noqa: BLE001
            return [("libtest:malformed", f"line is not JSON: {l[:200]!r}: {e}")]
    tests = [l for l in lines if l.get("type") == "test"]
    suites = [l for l in lines if l.get("type") == "suite"]
    # started / result pairing
    open_names = []
    results = []
    for t in tests:
        if t["event"] == "started":
            open_names.append(t["name"])
        else:
            if t["name"] in open_names:
                open_names.remove(t["name"])
            else:
                probs.append(("libtest:result-without-started", f"result line {t['event']} {t['name']!r} has no started line of the same name"))
            results.append(t)
    for n in open_names:
        probs.append(("libtest:started-without-result", f"started line {n!r} has no result line of the same name"))
    # expected result lines, in order
    exp = []
    for e in tree["errors"]:
        exp.append(("failed", "parse", e))
    for f in tree["features"]:
        for a in f["attempts"]:
            for en in a["entries"]:
                if en["t"] == "step":
                    ev = {"passed": "ok", "skipped": "ignored"}.get(en["status"], "failed")
                    exp.append((ev, "step", (f, a, en)))
                elif en["t"] == "hook" and en["status"] == "failed":
                    exp.append(("failed", "hook", (f, a, en)))
    # parse errors are output first or in stream position; compare the two kinds separately, each in order
    got_parse = [r for r in results if r["name"].startswith("Feature: Parsing ")]
    got_rest = [r for r in results if not r["name"].startswith("Feature: Parsing ")]
    exp_parse = [e for e in exp if e[1] == "parse"]
    exp_rest = [e for e in exp if e[1] != "parse"]
    if len(got_parse) != len(exp_parse):
        probs.append(("libtest:parse-errors", f"{len(got_parse)} parser error results, {len(exp_parse)} happened"))
    for r, e in zip(got_parse, exp_parse):
        if r["event"] != "failed" or e[2]["inner"].strip() not in (r.get("stdout") or ""):
            probs.append(("libtest:parse-errors", f"parser error line {r} does not state {e[2]['msg']!r}"))
    if len(got_rest) != len(exp_rest):
        probs.append(("libtest:count", f"{len(got_rest)} step/hook result lines, {len(exp_rest)} happened"))
    else:
        for r, (ev, kind, (f, a, en)) in zip(got_rest, exp_rest):
            parts = r["name"].split("::")
            feat_part = parts[0]
            want_feat = f"{f['keyword']}: {f['name']} "
            ok = feat_part.startswith(want_feat) and (f["path"] is None or feat_part[len(want_feat):] == norm_path(f["path"]).encode("unicode_escape").decode() or feat_part[len(want_feat):] == norm_path(f["path"]))
            idx = 1
            if a["rule"] is not None:
                ok = ok and len(parts) > idx and parts[idx].endswith(f": Rule: {a['rule']}")
                idx += 1
            sc = f"{a['line']}: {a['keyword']}: {a['name']}"
            if a["retry"] and a["retry"][0] > 0:
                sc += f" | Retry attempt {a['retry'][0]}/{a['retry'][0] + a['retry'][1]}"
            ok = ok and len(parts) > idx and parts[idx] == sc
            idx += 1
            if kind == "hook":
                ok = ok and len(parts) > idx and parts[idx] == f"{en['which']} hook"
            else:
                bgkw = (f.get("bg_keyword") or "Background") if en["bg"] else ""
                ok = ok and len(parts) > idx and parts[idx] == f"{en['line']}: {bgkw} {en['keyword']}{en['text']}"
            if not ok or r["event"] != ev:
                probs.append(("libtest:entry", f"line {r['event']} {r['name']!r} does not state {kind} {en.get('text') or en.get('which')!r} ({ev}) of {sc!r}"))
                break
            msg = en.get("payload") if kind == "step" else en.get("msg")
            if ev == "failed" and msg and msg != "(Could not resolve panic payload)" and msg not in (r.get("stdout") or ""):
                probs.append(("libtest:message", f"failure message {msg!r} not in stdout of {r['name']!r}"))
    # suite totals and verdict agree with the individual entries
    fin = [s for s in suites if s["event"] in ("ok", "failed")]
    finished = any(f["t"] == "finished" for f in rec["facts"])
    if finished:
        if len(fin) != 1:
            probs.append(("libtest:suite", f"{len(fin)} suite result lines"))
        else:
            s = fin[0]
            n_ok = sum(1 for r in results if r["event"] == "ok")
            n_ign = sum(1 for r in results if r["event"] == "ignored")
            n_failed_lines = sum(1 for r in results if r["event"] == "failed")
            # a failure inside an attempt that is retried afterwards (failed step other than
            # not-found, or failed hook, with retries left) is printed as a failed line but is not
            # final: the writer does not count it into the suite's `failed`
            retried = sum(1 for (ev, kind, x) in exp_rest if ev == "failed" and x[2]["retry_left"] > 0
                          and (kind == "hook" or x[2]["status"] != "undefined"))
            if s["passed"] != n_ok or s["ignored"] != n_ign or s["failed"] != n_failed_lines - retried:
                probs.append(("libtest:totals", f"suite says passed={s['passed']} failed={s['failed']} ignored={s['ignored']}, lines give ok={n_ok} failed={n_failed_lines} (of which in retried attempts {retried}) ignored={n_ign}"))
            if (s["event"] == "failed") != (s["failed"] > 0):
                probs.append(("libtest:verdict", f"verdict {s['event']} with failed={s['failed']}"))
    return probs


# --------------------------------------------------------------------------
# Cucumber JSON

def oracle_json(rec, tree):
    text = rec["json"].get("ok")
    if text is None:
        return [("json:panicked", rec["json"].get("panic", ""))]
    finished = any(f["t"] == "finished" for f in rec["facts"])
    if not finished:
        return []
    try:
        doc = json.loads(text)
    except Exception as e:  # noqa: BLE001
        return [("json:malformed", str(e))]
    probs = []
    err_objs = [f for f in doc if f.get("keyword") == "" and f.get("name") == ""]
    feat_objs = [f for f in doc if not (f.get("keyword") == "" and f.get("name") == "")]
    if len(err_objs) != len(tree["errors"]):
        probs.append(("json:parse-errors", f"{len(err_objs)} error objects, {len(tree['errors'])} parser errors happened"))
    for o, e in zip(err_objs, tree["errors"]):
        msgs = [s["result"].get("error_message", "") for el in o["elements"] for s in el["steps"]]
        if not any(e["inner"] in m for m in msgs):
            probs.append(("json:parse-errors", f"error object does not state {e['inner']!r}"))
    # a feature object is required for every feature with at least one step / hook result
    feats = [f for f in tree["features"] if any(e["t"] in ("step", "hook") for a in f["attempts"] for e in a["entries"])]
    # the format identifies a feature by (uri, name): features equal in both (only possible without
    # a path) are one object holding the scenarios of all of them
    merged, index = [], {}
    for f in feats:
        k = (f["name"], norm_path(f["path"]))
        if k in index:
            index[k]["attempts"] = index[k]["attempts"] + f["attempts"]
        else:
            g = dict(f)
            g["attempts"] = list(f["attempts"])
            index[k] = g
            merged.append(g)
    feats = merged
    feat_objs = [o for o in feat_objs if any(el["steps"] or el.get("before") or el.get("after") for el in o["elements"])] if len(feat_objs) != len(feats) else feat_objs
    if len(feat_objs) != len(feats):
        kind = "json:feature-objects-pathless" if any(f["path"] is None for f in feats) and all(o.get("uri") is None for o in feat_objs if [x for x in feat_objs if x["name"] == o["name"] and x.get("uri") == o.get("uri")].__len__() > 1) else "json:feature-objects"
        probs.append((kind, f"{len(feat_objs)} feature objects for {len(feats)} features with started scenarios"))
        return probs
    for o, f in zip(feat_objs, feats):
        if o["name"] != f["name"] or o.get("uri") != norm_path(f["path"]):
            probs.append(("json:feature", f"feature object {o['name']!r}/{o.get('uri')!r} for feature {f['name']!r}/{f['path']!r}"))
            continue
        # expected elements: per scenario (name, line): background steps and own steps of all attempts, in order
        exp_el = {}
        order = []
        for a in f["attempts"]:
            nm = (a["rule"] + " " if a["rule"] is not None else "") + a["name"]
            for en in a["entries"]:
                if en["t"] == "step":
                    key = (nm, a["line"], "background" if en["bg"] else "scenario")
                elif en["t"] == "hook":
                    key = (nm, a["line"], "scenario")
                else:
                    continue
                if key not in exp_el:
                    exp_el[key] = {"steps": [], "before": [], "after": []}
                    order.append(key)
                if en["t"] == "step":
                    exp_el[key]["steps"].append(en)
                else:
                    exp_el[key][en["which"].lower()].append(en)
        got_el = {}
        for el in o["elements"]:
            key = (el["name"], el["line"], el["type"])
            if key in got_el:
                probs.append(("json:duplicate-element", f"two elements {key}"))
            got_el[key] = el
        # elements created by a Step::Started only (no result yet) or scenarios without steps are allowed to be empty
        for key, el in got_el.items():
            e = exp_el.get(key, {"steps": [], "before": [], "after": []})
            gs = [(s["keyword"], s["name"], s["line"], s["result"]["status"]) for s in el["steps"]]
            es = [(s["keyword"], s["text"], s["line"], s["status"]) for s in e["steps"]]
            if gs != es:
                probs.append(("json:steps", f"element {key}: steps {gs}, happened {es}"))
                continue
            for s, x in zip(el["steps"], e["steps"]):
                if x.get("payload") and x["payload"] != "(Could not resolve panic payload)" and x["payload"] not in s["result"].get("error_message", ""):
                    probs.append(("json:message", f"element {key}: message {x['payload']!r} missing"))
            for which in ("before", "after"):
                gh = [h["result"]["status"] for h in el.get(which, [])]
                eh = [h["status"] for h in e[which]]
                if gh != eh:
                    probs.append(("json:hooks", f"element {key}: {which} hooks {gh}, happened {eh}"))
                for h, x in zip(el.get(which, []), e[which]):
                    if x.get("msg") and x["msg"] != "(Could not resolve panic payload)" and x["msg"] not in (h["result"].get("error_message") or ""):
                        probs.append(("json:message", f"element {key}: hook message {x['msg']!r} missing"))
        for key in order:
            if key not in got_el:
                probs.append(("json:missing-element", f"no element for {key}"))
    return probs


# --------------------------------------------------------------------------
# JUnit XML

def oracle_junit(rec, tree):
    text = rec["junit"].get("ok")
    if text is None:
        return [("junit:panicked", rec["junit"].get("panic", ""))]
    finished = any(f["t"] == "finished" for f in rec["facts"])
    if not finished:
        return []
    has_cdata_end = "]]>" in json.dumps(rec["facts"], ensure_ascii=False)
    try:
        root = ET.fromstring(text)
    except ET.ParseError as e:
        return [("junit:cdata-terminator" if has_cdata_end else "junit:malformed", f"XML not well-formed: {e}")]
    probs = []
    suites = list(root.iter("testsuite"))
    err_suites = [s for s in suites if s.get("name") == "Errors"]
    feat_suites = [s for s in suites if s.get("name") != "Errors"]
    if len(err_suites) != len(tree["errors"]):
        probs.append(("junit:parse-errors", f"{len(err_suites)} error suites, {len(tree['errors'])} parser errors"))
    for s, e in zip(err_suites, tree["errors"]):
        fails = [f.text or "" for c in s.iter("testcase") for f in c.iter("failure")] + [f.get("message") or "" for c in s.iter("testcase") for f in c.iter("failure")]
        if not any(e["inner"] in x for x in fails):
            probs.append(("junit:parse-errors", f"error suite does not state {e['inner']!r}"))
    feats = tree["features"]  # a feature whose bracket holds no scenario still is a (empty) suite
    if len(feat_suites) != len(feats):
        probs.append(("junit:suites", f"{len(feat_suites)} feature suites for {len(feats)} features"))
        return probs
    for s, f in zip(feat_suites, feats):
        want = f"Feature: {f['name']}" + (f": {norm_path(f['path'])}" if f["path"] is not None else "")
        if s.get("name") != want:
            probs.append(("junit:suite-name", f"suite {s.get('name')!r} for feature {want!r}"))
            continue
        cases = list(s.findall("testcase"))
        if len(cases) != len(f["attempts"]):
            probs.append(("junit:cases", f"suite {want!r}: {len(cases)} testcases for {len(f['attempts'])} scenario attempts"))
            continue
        for c, a in zip(cases, f["attempts"]):
            wn = (f"Rule: {a['rule']}: " if a["rule"] is not None else "") + f"Scenario: {a['name']}: " + (f"{norm_path(f['path'])}:" if f["path"] is not None else "") + f"{a['line']}:{a['col']}"
            if c.get("name") != wn:
                probs.append(("junit:case-name", f"testcase {c.get('name')!r} for attempt {wn!r}"))
                continue
            failed = any((e["t"] == "step" and e["status"] in ("failed", "ambiguous", "undefined")) or (e["t"] == "hook" and e["status"] == "failed") for e in a["entries"])
            skipped = any(e["t"] == "step" and e["status"] == "skipped" for e in a["entries"])
            status = "failure" if c.find("failure") is not None else ("skipped" if c.find("skipped") is not None else "success")
            want_status = "failure" if failed else ("skipped" if skipped else "success")
            if status != want_status:
                probs.append(("junit:status", f"testcase {wn!r} is {status}, attempt was {want_status}"))
                continue
            # the failure element states what failed: the attempt's last event that is neither a log
            # nor the passing after hook - a hook's message is its panic payload, a step's its error
            fl = c.find("failure")
            # (XML attribute-value normalization turns line breaks and tabs into spaces)
            att_norm = lambda x: re.sub(r"[\n\r\t]", " ", x or "")
            if fl is not None and not has_cdata_end:
                rel = [e for e in a["entries"] if e["t"] != "log" and not (e["t"] == "hook" and e["which"] == "After" and e["status"] == "passed")]
                last = rel[-1] if rel else None
                if last is not None and last["t"] == "hook" and last["status"] == "failed":
                    if fl.get("type") != "Hook Panicked" or att_norm(fl.get("message")) != att_norm(last["msg"]):
                        probs.append(("junit:failure-message", f"testcase {wn!r}: failure type={fl.get('type')!r} message={fl.get('message')!r}, the failed {last['which']} hook's message is {last['msg']!r}"))
                elif last is not None and last["t"] == "step" and last["status"] in ("failed", "ambiguous", "undefined"):
                    if fl.get("type") != "Step Panicked" or att_norm(fl.get("message")) != att_norm(last["err"]):
                        probs.append(("junit:failure-message", f"testcase {wn!r}: failure type={fl.get('type')!r} message={fl.get('message')!r}, the failed step's error is {last['err']!r}"))
            so = c.find("system-out")
            if so is None and c.find("failure") is not None:
                so = c.find("failure")  # junit-report puts the captured output into the failure element's body
            exp = expected_text_entries(a)
            if so is None:
                if exp:
                    probs.append(("junit:skipped-case-has-no-steps" if status == "skipped" else "junit:no-system-out", f"testcase {wn!r} ({status}) has no system-out although {len(exp)} steps/hooks happened"))
                continue
            got = [g for g in parse_text(so.text or "") if g["k"] in ("step", "hook")]
            if has_cdata_end and len(got) != len(exp):
                probs.append(("junit:cdata-terminator", f"testcase {wn!r}: text cut at the CDATA terminator"))
                continue
            probs += [("junit:" + k, m) for k, m in check_entries(got, exp, wn)]
    return probs


# --------------------------------------------------------------------------



# --------------------------------------------------------------------------
# plain terminal report with its summary (Basic::stdout() = Basic behind Normalize behind Summarize)

_SUM_LINE = re.compile(r"^(\d+) (feature|rule|scenario|step)s?(?: \((.*)\))?$")


def parse_summary_block(text):
    """-> dict or None if there is no [Summary] block; raises ValueError on a malformed block."""
    pos = text.rfind("[Summary]")
    if pos < 0:
        return None
    lines = [l.strip() for l in text[pos:].splitlines()[1:] if l.strip()]
    out = {"parsing_errors": 0, "hook_errors": 0}
    for l in lines:
        m = _SUM_LINE.match(l)
        if m:
            n, what, stats = int(m.group(1)), m.group(2), m.group(3)
            if what in ("feature", "rule"):
                if stats is not None:
                    raise ValueError(f"unexpected details on line {l!r}")
                out[what + "s"] = n
                continue
            d = {"total": n, "passed": 0, "skipped": 0, "failed": 0, "retried": 0}
            if stats is not None:
                body, _, retr = stats.partition(" with ")
                if stats.startswith("with "):
                    body, retr = "", stats[len("with "):]
                for part in [p for p in body.split(", ") if p]:
                    mm = re.fullmatch(r"(\d+) (passed|skipped|failed)", part)
                    if not mm:
                        raise ValueError(f"cannot read {part!r} in {l!r}")
                    d[mm.group(2)] = int(mm.group(1))
                if retr:
                    mm = re.fullmatch(r"(\d+) retr(y|ies)", retr)
                    if not mm or (int(mm.group(1)) == 1) != (mm.group(2) == "y"):
                        raise ValueError(f"cannot read {retr!r} in {l!r}")
                    d["retried"] = int(mm.group(1))
            out[what + "s"] = d
            continue
        ok = True
        for part in l.split(", "):
            mm = re.fullmatch(r"(\d+) (parsing|hook) errors?", part)
            if not mm:
                ok = False
                break
            out[mm.group(2) + "_errors"] = int(mm.group(1))
        if not ok:
            raise ValueError(f"unexpected summary line {l!r}")
    return out


def oracle_summary(rec, tree):
    text = rec["summarized"].get("ok")
    if text is None:
        return [("summary:panicked", rec["summarized"].get("panic", ""))]
    exp = rec["expected_summary"]
    probs = []
    plain = rec["basic"].get("ok")
    n_blocks = text.count("[Summary]")
    if not exp["finished"]:
        return [] if n_blocks == 0 else [("summary:without-run-finished", "a summary was printed although the run never finished")]
    if n_blocks != 1:
        return [("summary:block-count", f"{n_blocks} [Summary] blocks in the terminal report")]
    # the report in front of the summary is the plain report
    if plain is not None and text[:text.rfind("[Summary]")].rstrip("\n") != plain.rstrip("\n"):
        probs.append(("summary:report-differs", "the report printed in front of the summary differs from the plain report of the same stream"))
    try:
        got = parse_summary_block(text)
    except ValueError as e:
        return probs + [("summary:malformed", str(e))]
    if got.get("features") != exp["features"] or got.get("rules", 0) != exp["rules"]:
        probs.append(("summary:brackets", f"summary states {got.get('features')} features / {got.get('rules', 0)} rules, the stream has {exp['features']} / {exp['rules']}"))
    for what in ("scenarios", "steps"):
        g, e = got.get(what), exp[what]
        if g is None:
            probs.append(("summary:malformed", f"no {what} line"))
            continue
        if g["total"] != g["passed"] + g["skipped"] + g["failed"]:
            probs.append((f"summary:{what}-total", f"{what} line states a total of {g['total']} but {g['passed']} passed + {g['skipped']} skipped + {g['failed']} failed"))
        if (g["passed"], g["skipped"], g["failed"]) != (e["passed"], e["skipped"], e["failed"]):
            probs.append((f"summary:{what}", f"summary states {what} passed/skipped/failed = {g['passed']}/{g['skipped']}/{g['failed']}, the entries give {e['passed']}/{e['skipped']}/{e['failed']}"))
        if what == "steps" and g["retried"] != e["retried"]:
            probs.append(("summary:steps-retried", f"summary states {g['retried']} retried steps, the entries give {e['retried']}"))
        if what == "scenarios" and g["retried"] > e["retried_at_most"]:
            probs.append(("summary:scenarios-retried", f"summary states {g['retried']} retried scenarios, only {e['retried_at_most']} scenarios have a retried failure"))
    if got["parsing_errors"] != exp["parsing_errors"] or got["hook_errors"] != exp["hook_errors"]:
        probs.append(("summary:errors", f"summary states {got['parsing_errors']} parsing / {got['hook_errors']} hook errors, the stream has {exp['parsing_errors']} / {exp['hook_errors']}"))
    return probs



def render_terminal(text):
    """What a terminal shows after `text`: newline, carriage return, cursor up / down, erase line; colours ignored."""
    screen = [[]]
    row = col = 0
    i, n = 0, len(text)
    while i < n:
        c = text[i]
        i += 1
        if c == "\n":
            row += 1
            col = 0
        elif c == "\r":
            col = 0
        elif c == "\x1b":
            if i >= n or text[i] != "[":
                raise ValueError("escape sequence other than CSI")
            i += 1
            params = ""
            while i < n and (text[i].isdigit() or text[i] == ";"):
                params += text[i]
                i += 1
            if i >= n:
                raise ValueError("unterminated CSI")
            fin = text[i]
            i += 1
            k = int(params) if params.isdigit() else 1
            if fin == "A":
                row = max(0, row - k)
            elif fin == "B":
                row += k
            elif fin == "K":
                if params != "2":
                    raise ValueError("erase-in-line mode " + params)
                screen[row] = []
            elif fin == "m":
                pass
            else:
                raise ValueError("unexpected CSI final " + repr(fin))
        else:
            line = screen[row]
            while len(line) < col:
                line.append(" ")
            if col < len(line):
                line[col] = c
            else:
                line.append(c)
            col += 1
        while len(screen) <= row:
            screen.append([])
    return ["".join(l) for l in screen]


def _trimmed(lines):
    lines = [l.rstrip() for l in lines]
    while lines and not lines[-1]:
        lines.pop()
    return lines


def oracle_colored(rec, tree):
    """With colouring on the reporter prints a transient line per started step and erases it when the
    result is known: what is left on the screen must be the plain report of the same stream."""
    col = rec.get("colored")
    if col is None:
        return []
    text = col.get("ok")
    if text is None:
        return [("basic:colored-panicked", col.get("panic", ""))]
    plain = rec["basic"].get("ok")
    if plain is None:
        return []
    try:
        screen = _trimmed(render_terminal(text))
    except ValueError as e:
        return [("basic:colored-malformed", str(e))]
    want = _trimmed(plain.split("\n"))
    if screen != want:
        k = next((i for i, (a, b) in enumerate(zip(screen, want)) if a != b), min(len(screen), len(want)))
        return [("basic:colored-screen-differs", f"line {k + 1}: the screen shows {screen[k] if k < len(screen) else None!r}, the plain report has {want[k] if k < len(want) else None!r} ({len(screen)} vs {len(want)} lines)")]
    return []


def render_terminal_width(text, width):
    """Screen rows of a terminal `width` columns wide after `text`: deferred wrap at the last column,
    newline = CR+LF, cursor up, erase line; colours ignored; every character one column."""
    rows = [[]]
    row = col = 0
    pending = False
    i, n = 0, len(text)

    def need(r):
        while len(rows) <= r:
            rows.append([])
    while i < n:
        c = text[i]
        i += 1
        if c == "\n":
            row += 1
            col = 0
            pending = False
            need(row)
        elif c == "\r":
            col = 0
            pending = False
        elif c == "\x1b":
            if i >= n or text[i] != "[":
                raise ValueError("escape sequence other than CSI")
            i += 1
            params = ""
            while i < n and (text[i].isdigit() or text[i] == ";"):
                params += text[i]
                i += 1
            if i >= n:
                raise ValueError("unterminated CSI")
            fin = text[i]
            i += 1
            k = int(params) if params.isdigit() else 1
            if fin == "A":
                row = max(0, row - k)
                pending = False
            elif fin == "B":
                row += k
                pending = False
                need(row)
            elif fin == "K":
                if params != "2":
                    raise ValueError("erase-in-line mode " + params)
                rows[row] = []
            elif fin == "m":
                pass
            else:
                raise ValueError("unexpected CSI final " + repr(fin))
        else:
            cw = _columns(c)
            if cw == 0:
                continue
            if pending or (cw == 2 and col == width - 1):
                row += 1
                col = 0
                pending = False
                need(row)
            line = rows[row]
            while len(line) < col:
                line.append(" ")
            cells = [c] if cw == 1 else [c, ""]
            for k, cell in enumerate(cells):
                if col + k < len(line):
                    line[col + k] = cell
                else:
                    line.append(cell)
            if col + cw >= width:
                col = width - 1
                pending = True
            else:
                col += cw
    return ["".join(l) for l in rows]


def _columns(c):
    """Terminal columns of one character: 0 for combining marks and format characters, 2 for East Asian
    wide / fullwidth ones, else 1."""
    import unicodedata
    if unicodedata.combining(c) or unicodedata.category(c) in ("Mn", "Me", "Cf"):
        return 0
    return 2 if unicodedata.east_asian_width(c) in ("W", "F") else 1


def oracle_narrow(rec, tree):
    """The coloured reporter built on a terminal of known width: transient lines that wrap take several
    rows and all of them are erased; the final screen is what the plain report looks like on that terminal
    (East Asian wide characters take two columns, combining marks none)."""
    nar = rec.get("narrow")
    if nar is None:
        return []
    text = nar.get("ok")
    if text is None:
        return [("basic:narrow-panicked", nar.get("panic", ""))]
    if text.startswith("\x00no terminal"):
        return []
    plain = rec["basic"].get("ok")
    if plain is None:
        return []
    width = rec["narrow_cols"]
    try:
        screen = _trimmed(render_terminal_width(text, width))
        want = _trimmed(render_terminal_width(plain, width))
    except ValueError as e:
        return [("basic:narrow-malformed", str(e))]
    if screen != want:
        k = next((i for i, (a, b) in enumerate(zip(screen, want)) if a != b), min(len(screen), len(want)))
        return [("basic:narrow-screen-differs", f"terminal {width} columns wide, row {k + 1}: the screen shows {screen[k] if k < len(screen) else None!r}, the plain report there has {want[k] if k < len(want) else None!r} ({len(screen)} vs {len(want)} rows)")]
    return []


ORACLES = [("basic", oracle_basic), ("colored", oracle_colored), ("narrow", oracle_narrow), ("libtest", oracle_libtest), ("json", oracle_json), ("junit", oracle_junit),
           ("summarized", oracle_summary)]


def shape(rec, tree, reporter):
    facts = rec["facts"]
    retry = any(f["t"] == "scenario" and f["retry"] and f["retry"][0] > 0 for f in facts)
    hookf = any(f["t"] == "hook" and f["status"] == "failed" for f in facts)
    perr = bool(tree["errors"])
    pathless = any(f["path"] is None for f in tree["features"])
    special = any(ch in json.dumps(facts, ensure_ascii=False) for ch in ["<tag>", "a&b", "é", "日本", "'sq'", "dq", "]]>"])
    if not (retry or hookf or perr or pathless or special):
        return None
    statuses = sorted({f["status"] for f in facts if f["t"] == "step"})
    key = f"{reporter}|{retry}|{hookf}|{perr}|{pathless}|{special}|{statuses}|{len(tree['features'])}|{rec['opts']}"
    return int(hashlib.md5(key.encode()).hexdigest()[:12], 16)


def run(workdirs):
    viols, distinct, samples = [], set(), []
    evaluations = 0
    counters = {"c14.documents_parsed": 0, "c14.cases": 0, "c14.summary_blocks_parsed": 0, "c14.summaries_with_retried_scenarios": 0}
    errors = []
    for wd in workdirs:
        for path in sorted(glob.glob(os.path.join(wd, "*.dump.jsonl"))):
            for line in open(path, encoding="utf-8"):
                rec = json.loads(line)
                tree = build(rec["facts"])
                counters["c14.cases"] += 1
                for name, fn in ORACLES:
                    evaluations += 1
                    counters["c14.documents_parsed"] += 1
                    sh = shape(rec, tree, name)
                    if sh is not None:
                        distinct.add(sh)
                    if name == "narrow":
                        t = (rec.get("narrow", {}).get("ok") or "")
                        if t and not t.startswith("\x00no terminal"):
                            counters["c14.narrow_terminal_screens_rendered"] = counters.get("c14.narrow_terminal_screens_rendered", 0) + 1
                            w = rec["narrow_cols"]
                            counters["c14.rows_wrapped_on_those_screens"] = counters.get("c14.rows_wrapped_on_those_screens", 0) + sum(1 for l in (rec["basic"].get("ok") or "").split("\n") if len(l) > w)
                            if not (rec["basic"].get("ok") or "").replace("\u2714", "").replace("\u2718", "").isascii():
                                counters["c14.narrow_terminal_screens_with_non_ascii_text"] = counters.get("c14.narrow_terminal_screens_with_non_ascii_text", 0) + 1
                    if name == "colored":
                        n_erased = (rec.get("colored", {}).get("ok") or "").count("\x1b[2K")
                        counters["c14.colored_screens_rendered"] = counters.get("c14.colored_screens_rendered", 0) + 1
                        counters["c14.transient_lines_erased_on_those_screens"] = counters.get("c14.transient_lines_erased_on_those_screens", 0) + n_erased
                    if name == "summarized":
                        try:
                            blk = parse_summary_block(rec["summarized"].get("ok") or "")
                        except ValueError:
                            blk = None
                        if blk:
                            counters["c14.summary_blocks_parsed"] += 1
                            if blk.get("scenarios", {}).get("retried"):
                                counters["c14.summaries_with_retried_scenarios"] += 1
                    try:
                        probs = fn(rec, tree)
                    except Exception as e:  # noqa: BLE001
                        import traceback
                        errors.append(f"oracle {name} crashed on case {rec['case_index']}: {e}\n{traceback.format_exc()[-600:]}")
                        continue
                    seen = set()
                    for sig, msg in probs:
                        if sig in seen:
                            continue
                        seen.add(sig)
                        viols.append({"property": "C14", "signature": sig, "detail": f"[{name}] {msg}"[:1500],
                                      "case_index": rec["case_index"],
                                      "witness": {"facts": rec["facts"][:200], "document": (rec[name].get("ok") or "")[:6000], "opts": rec["opts"]}})
                if len(samples) < 2 and len(rec["facts"]) > 12:
                    samples.append({"case_index": rec["case_index"], "facts": rec["facts"][:40],
                                    "basic_text": (rec["basic"].get("ok") or "")[:1500]})
    return {"violations": viols, "evaluations": evaluations, "distinct": sorted(distinct),
            "counters": counters, "samples": samples, "errors": errors[:5]}
