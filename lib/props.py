"""Property table: which workloads decide which property, budgets, evidence rules."""

VRUN_ASSUME = [
    "runtime monitoring: only the generated cases and schedules were observed, nothing is claimed beyond them",
    "schedules = orders in which gate-blocked user futures and late parser items are released by the seeded scheduler (the runner is one cooperative task)",
    "features are built as gherkin struct literals (the gherkin parser is not in the loop)",
    "debug build of the crate (debug_assert! armed), feature set: macros, libtest, output-json, output-junit, timestamps (not `tracing`)",
]


def vrun(profile, quick, thorough, **kw):
    d = {"bin": "vh", "engine": "vrun", "profile": profile,
         "cases": {"quick": quick, "thorough": thorough},
         "timeout_s": {"quick": 600, "thorough": 3000}}
    d.update(kw)
    return d


PROPS = {
    "C01": {
        "workloads": [vrun("c01", 4000, 80000), vrun("general", 1500, 30000)],
        "rule": "each real run's raw event stream is replayed into every stats pipeline (Summarize<Normalize<Basic>>, the same under FailOnSkipped, under Repeat::failed / Repeat::skipped, Normalize<Libtest> incl. its suite line, Tee, Or with constant predicate); non-trivial = the run contains a failed/skipped step, a failed hook or a parser error; distinct by the run's per-attempt outcome shape [step failed, hook failed, skipped, retries left] (every run is judged by all 12 pipeline verdicts; every 5th run is executed again without gates through Cucumber::custom(..).run_and_exit() - half of them under fail_on_skipped - and must panic iff the statement says failed; see observed.c01.*)",
        "floor": {"quick": 200, "thorough": 1000},
        "assumptions": VRUN_ASSUME + ["the verdict oracle is written from the statement over the raw stream; the former rule (any Hook::Failed fails the run) is still computed to label a mismatch of exactly that shape (`verdict:hook-failed-in-nonfinal-attempt`, repaired by 3269717)"],
    },
    "C02": {
        "workloads": [vrun("c02", 4000, 80000), vrun("general", 1500, 30000)],
        "rule": "case = seeded features x outcome plan x config x schedule run on the real runner; an attempt is non-trivial if it has >=2 steps or a hook or a failure AND a foreign scenario's event interleaved inside it; distinct by (feature-bg depth, rule-bg depth, failing position, hooks present, retry index, hook failed)",
        "floor": {"quick": 30, "thorough": 60},
        "assumptions": VRUN_ASSUME,
    },
    "C03": {
        "workloads": [vrun("c03", 4000, 80000), vrun("general", 1500, 30000)],
        "rule": "non-trivial run: feature brackets overlapping in time, or a rule together with >=2 features / a retry / a fail-fast trip; distinct by (features, rules, overlap, retry, trip, lazy parser, limit) x schedule hash",
        "floor": {"quick": 100, "thorough": 500},
        "assumptions": VRUN_ASSUME,
    },
    "C04": {
        "workloads": [vrun("c04", 4000, 80000), vrun("general", 1500, 30000)],
        "rule": "non-trivial run: the runner's idle path was entered (stream Pending with no user future blocked while the parser or a retry delay was pending, or a self-woken parser Pending); distinct by (idle points, self-woken pendings, limit, items, pull pattern). Termination is decided as bounded progress: stream ends within 64+16*events polls after the last user future / parser item, no lost wake-up, no >20000 idle self-wakes, no in-poll spin (CPU-time watchdog)",
        "floor": {"quick": 100, "thorough": 500},
        "assumptions": VRUN_ASSUME + ["'always terminates' is checked only as the bounded-progress statements in `rule`; an unbounded eventually is out of reach of runtime monitoring"],
    },
    "C05": {
        "workloads": [vrun("c05", 3000, 50000), vrun("general", 1500, 30000)],
        "rule": "non-trivial scenario: >=2 attempts; distinct by (sequence of failure sites per attempt [hook/step/bg/world-init], expected budget+delay, serial?, limit)",
        "floor": {"quick": 100, "thorough": 300},
        "assumptions": VRUN_ASSUME + ["delay is checked as a lower bound between monotonic Instants taken inside user callbacks (last callback of attempt k, first of k+1)"],
    },
    "C06": {
        "workloads": [vrun("c06", 4000, 80000), vrun("general", 1500, 30000)],
        "rule": "non-trivial run: more scenarios than the limit (the limit binds); distinct by (limit, source of limit [cli/builder/both/default], peak in flight) x completion-order (schedule) hash. Work conservation is evaluated only at quiescent points of serial-free runs",
        "floor": {"quick": 100, "thorough": 500},
        "assumptions": VRUN_ASSUME,
    },
    "C07": {
        "workloads": [vrun("c07", 4000, 60000), vrun("general", 1500, 30000)],
        "rule": "non-trivial serial attempt: it became ready (delayed/undelayed retry, or late feature from a lazy parser) while >=1 other attempt was in flight; distinct by (why ready, limit, classifier) x schedule hash",
        "floor": {"quick": 30, "thorough": 200},
        "assumptions": VRUN_ASSUME,
    },
    "C08": {
        "workloads": [vrun("c08", 4000, 80000), vrun("general", 1500, 30000)],
        "rule": "non-trivial fail-fast run: a final failure while >=1 other attempt is in flight, or a retried failure that must not trip it, or a parser error with items after it; distinct by (in flight at trip, limit, started after trip) x schedule hash",
        "floor": {"quick": 50, "thorough": 300},
        "assumptions": VRUN_ASSUME + ["differential clause: every fail-fast case without a final failure, a parser error or a real-time delay is executed a second time with fail-fast off under the same seeds; the two event streams must be equal event by event"],
    },
    "C09": {
        "workloads": [vrun("c09", 4000, 80000), vrun("general", 1500, 30000)],
        "rule": "non-trivial attempt: a hook is set or >=2 callbacks executed; distinct by (callback kinds sequence, hooks present, World::new failed, finishing reason)",
        "floor": {"quick": 30, "thorough": 60},
        "assumptions": VRUN_ASSUME + ["callback groups of attempts that executed only background steps without hooks carry no scenario identity and are attributed by order"],
    },
    "C10": {
        "workloads": [vrun("c10", 4000, 80000), vrun("general", 1500, 30000)],
        "rule": "non-trivial run: >=1 panic or World error thrown; distinct by the set of (site kind x payload kind) thrown in the run; payload kinds: String, &'static str, custom struct, i64; sites: step (inside or before its future), before hook, after hook, World::new (Err or panic)",
        "floor": {"quick": 50, "thorough": 150},
        "assumptions": VRUN_ASSUME + ["one run at a time per process (the panic hook is process-global)"],
    },
}

def vstream(profile, quick, thorough, **kw):
    d = {"bin": "vh", "engine": "vstream", "profile": profile,
         "cases": {"quick": quick, "thorough": thorough},
         "timeout_s": {"quick": 600, "thorough": 3000}, "sample_keys": [profile]}
    d.update(kw)
    return d


VSTREAM_ASSUME = [
    "runtime monitoring of the real writers: only the generated streams were observed",
    "streams: 3/4 synthetic (random forests of features/rules/scenarios/retry attempts with hooks, logs, all failure kinds), 1/4 recorded from real runner::Basic runs; every event carries a unique token in its timestamp so the recording writer knows exactly which input event it received",
]

PROPS.update({
    "C11": {
        "engine_name": "vstream",
        "workloads": [vstream("c11", 8000, 150000)],
        "rule": "input = random topological interleaving of the happened-before order of a random forest (also interleavings runner::Basic never emits), every 5th one already sequential; the oracle compares (input prefix, output prefix) after EVERY handle_event call; non-trivial = >=2 features or a rule, with >=1 event buffered at some call; distinct by interleaving hash",
        "floor": {"quick": 500, "thorough": 3000},
        "assumptions": VSTREAM_ASSUME + ["the order among entities that are not at the head of the output is left free, as in the statement"],
    },
    "C12": {
        "engine_name": "vstream",
        "workloads": [vstream("c12", 8000, 150000)],
        "rule": "normalized contract-abiding streams fed to Summarize<recording writer>, with and without Repeat::failed outside; counters compared with an independent fold written from the statement; non-trivial = a scenario with a retry, a hook failure or a skip; distinct by per-scenario attempt-outcome word (step failed, hook failed, skipped per attempt). Streams containing the shapes of the two repaired findings would be evaluated again with those scenarios removed, so that a regression of them cannot mask another miscount",
        "floor": {"quick": 30, "thorough": 60},
        "assumptions": VSTREAM_ASSUME + ["a not-found failure (skipped step turned into a failure by fail_on_skipped) is terminal: the runner never retries it"],
    },
    "C13": {
        "engine_name": "vstream",
        "workloads": [vstream("c13", 6000, 100000)],
        "rule": "arbitrary streams (interleaved, sequential, every 7th randomly shuffled = not contract-abiding) through FailOnSkipped (default and custom predicate), Repeat (skipped / failed / custom filter), Tee (events and arbitrary writes, scripted stats), Or (routing by token, scripted stats), discard::Arbitrary / discard::Stats and the nesting FailOnSkipped<Repeat<Tee<..>>>; non-trivial = the stream has events the wrapper must transform / repeat / route; distinct by the stream's skipped/failed/finished shape",
        "floor": {"quick": 300, "thorough": 2000},
        "assumptions": VSTREAM_ASSUME,
    },
})

def vpure(profile, quick, thorough, **kw):
    d = {"bin": "vh", "engine": "vpure", "profile": profile,
         "cases": {"quick": quick, "thorough": thorough},
         "timeout_s": {"quick": 600, "thorough": 3000}, "sample_keys": [profile]}
    d.update(kw)
    return d


VPURE_ASSUME = [
    "runtime monitoring of the real functions on generated inputs; nothing is claimed beyond the inputs observed",
    "inputs are gherkin struct literals (and generated .feature files where the parser is in the loop)",
]

PROPS.update({
    "C15": {
        "engine_name": "vpure",
        "workloads": [vpure("c15", 30000, 600000)],
        "rule": "random features (tags on feature / rule / scenario) x optional --name regex x optional random tag AST (depth<=3) x closure, options given as struct fields or through Opts::try_parse_from argv; the features a recording Runner receives from Cucumber::custom(..).filter_run are compared (==) with the input filtered by an independent evaluator; TagOperation::eval is compared with a recursive evaluator on 6 random ASTs (depth<=4) x tag sets per case; non-trivial = the filter keeps some and drops some scenarios; distinct by (regex, AST, argv?, kept, dropped)",
        "floor": {"quick": 1000, "thorough": 5000},
        "assumptions": VPURE_ASSUME + ["tag expressions given through argv are rendered fully parenthesized: precedence of the gherkin crate's tagexpr parser is trusted, not tested"],
    },
    "C16": {
        "engine_name": "vpure",
        "workloads": [vpure("c16", 30000, 600000)],
        "rule": "3/4: gherkin::Feature literals with outlines (top level and in rules, 1-3 Examples tables, tagged / header-only / missing tables, adjacent, repeated, unclosed and unknown placeholders in name, step text, doc string and table cells, values with < > $ \\ ( * and non-ASCII) through Feature::expand_examples, compared with the oracle's own single-pass expansion; 1/4: generated .feature files through parser::Basic (positions pairwise distinct, tags order, substitution, unknown placeholder -> one ExampleExpansion error); non-trivial = >=2 data rows and a placeholder outside the step text; distinct by input",
        "floor": {"quick": 1000, "thorough": 5000},
        "assumptions": VPURE_ASSUME + ["column names are unique per table (duplicate columns are outside the statement)", "for files the gherkin parser is trusted to read the generated text as written"],
    },
    "C17": {
        "engine_name": "vpure",
        "workloads": [vpure("c17", 20000, 400000)],
        "rule": "1-12 definitions with unique (keyword, regex, location) from a pool with nested / optional / named / multi-byte / empty groups x a step text x keyword; Collection::find on 6 registration orders x 2 fresh collections (fresh RandomState each) is compared with Regex::captures over the same-keyword definitions; the selected fn pointer is invoked and must record its own index and the matches; non-trivial = >=2 definitions match, or an optional group did not participate, or only another keyword's definition matches; distinct by (text, keyword, definitions)",
        "floor": {"quick": 500, "thorough": 3000},
        "assumptions": VPURE_ASSUME,
    },
    "C18": {
        "engine_name": "vpure",
        "workloads": [vpure("c18", 40000, 800000), vrun("c18", 3000, 50000)],
        "rule": "pure part: RetryOptions::parse_from_tags on random placements of the four well-formed retry tag forms on scenario / rule / feature x random tag-filter ASTs x CLI values, compared with an oracle written from the statement; end-to-end part (real runner): the Retries on each scenario's first Started event and its attempts, with values coming from tags, CLI, builder or both plus the merge clauses: in-flight peak never above `--concurrency`-over-builder and reaching min(limit, scenarios) when everything is available at the first dispatch, fail-fast active iff CLI or builder set it; non-trivial = >=2 sources (tag levels, cli retry, cli after, filter) present; distinct by their combination",
        "floor": {"quick": 500, "thorough": 3000},
        "assumptions": VPURE_ASSUME + ["tags that merely start with `retry` or carry malformed payloads are outside the statement and not generated"],
    },
})


PROPS["C19"] = {
    "engine_name": "zoo",
    "builds": [("zoo", ())],
    "workloads": [{"bin": "zoo", "engine": "zoo", "profile": "zoo", "cases": {"quick": 1, "thorough": 1}, "shards": 1,
                   "timeout_s": 600, "sample_keys": ["zoo"]}],
    "rule": "programs = a fixed zoo of 36 attribute uses on 30 functions (sync/async, ()/Result, typed args, &[T], #[step] and `step`-named argument, literal / regex / expr, custom Parameter with two groups and with default name, 2 and 3 attributes on one fn, two Worlds) compiled by the current /repo/codegen; inputs = a corpus of ~130 step texts (positives, prefix / suffix / case near-misses of literals, regex metacharacters in literals, int/float/word/string/anonymous parameters, optional text, alternation, parse failures, returned Err) x 3 keywords x 2 Worlds; World::collection().find must select what a hand-written matcher table selects, and invoking the selected function must record the expected parsed arguments or fail; non-trivial = the text matches >=1 definition or is a near-miss of a literal; distinct by (world, keyword, text)",
    "floor": {"quick": 50, "thorough": 50},
    "assumptions": ["decides the property for this zoo's signatures only (programs are sampled, not enumerated); macro compile errors are not observable at run time",
                    "the expected regex of each Cucumber Expression in the table is this author's translation of the Cucumber Expressions specification",
                    "the tier does not matter: the zoo and the corpus are fixed, the run is exhaustive over them"],
    "technique": "runtime monitoring: reference-table oracle over the compiled macro zoo",
}


PROPS["C20"] = {
    "engine_name": "vt",
    "builds": [("vt", ())],
    "workloads": [{"bin": "vt", "engine": "vt", "profile": "c20", "cases": {"quick": 640, "thorough": 12000},
                   "timeout_s": {"quick": 600, "thorough": 3000}, "sample_keys": ["vt"]}],
    "rule": "one real run per process through Cucumber::custom(..).init_tracing().run() (global subscriber) polled by the gate scheduler; every before hook / step / after hook emits 0-4 `tracing::info!` lines with unique ids before and after its gates; 1-10 scenarios, limits 2/3/64/unlimited, retries; the raw event stream is checked for: each id delivered exactly once, as a Log of the emitting scenario attempt, after the Started and before the result event of the emitting step / hook, none missing at run-Finished; non-trivial = >=2 scenarios in flight both logging; distinct by schedule hash",
    "floor": {"quick": 100, "thorough": 1000},
    "assumptions": ["with the `tracing` feature the runner busy-yields while scenarios run, so a quiescent point is 4 consecutive self-woken polls without any event, callback step or parser pull",
                    "World::new emits no logs",
                    "Miri cannot run this workload (dependency UB report in crossbeam AtomicCell<Box<_>>, see DESIGN.md)"],
    "technique": "runtime monitoring: trace oracle over the recorded raw event stream of real runs with the tracing integration enabled",
}


def _c14_post(merged_all, tier, seed, work):
    import os
    import c14
    res = c14.run([os.path.join(work, "C14_0")])
    for v in res["violations"]:
        v["seed"] = seed * 1000
        v["workload"] = {"bin": "vh", "engine": "vstream", "profile": "c14", "args": {}}
    return res


PROPS["C14"] = {
    "engine_name": "vstream",
    "workloads": [vstream("c14", 1600, 30000, sample_keys=[])],
    "post": _c14_post,
    "rule": "every stream (3/4 synthetic with names/texts/panic messages containing quotes, markup, ampersands, non-ASCII, path-less features, retries, hook failures, both kinds of parser errors, not-found failures; 1/4 recorded from real runs) is written by Basic (Coloring::Never), Libtest, Json and JUnit, each behind Normalize, with varying verbosity / --show-output / --report-time; each document is parsed back by an independent parser and compared with the facts; non-trivial = the stream has a retry, a hook failure, a parser error, a path-less feature or special characters; distinct by (reporter, those flags, step statuses present, number of features, options)",
    "floor": {"quick": 100, "thorough": 300},
    "assumptions": VSTREAM_ASSUME + [
        "input restriction: names and texts contain no newline, no '::', no ' | Retry attempt' and do not start with a marker glyph",
        "trusted: python json / xml.etree parsers; the facts are read off the stream after the real Normalize (checked separately by C11)",
        "the CDATA terminator ']]>' is planted only in every 10th synthetic case",
    ],
}

VT_EXTRA = {"bin": "vt", "engine": "vt", "profile": "c20", "cases": {"quick": 320, "thorough": 6000},
            "timeout_s": {"quick": 600, "thorough": 3000}, "sample_keys": []}
for _p in ("C02", "C03", "C05", "C06", "C09", "C10"):
    PROPS[_p]["workloads"] = PROPS[_p]["workloads"] + [dict(VT_EXTRA)]
    PROPS[_p]["builds"] = [("vh", ()), ("vt", ())]
    PROPS[_p]["assumptions"] = PROPS[_p]["assumptions"] + ["a third workload runs the same oracle on real runs through the Cucumber facade with the `tracing` feature compiled in and a collector installed (the runner's span / span-close-wait code paths), one run per process"]

MIRI_RUN = {"engine": "vrun", "profile": "tiny", "procs": 16, "cases_per_proc": 10, "timeout_s": 2400}
for _p, _why in (("C05", "retry-delay helper thread + oneshot wake-up under Miri's data-race detector"),
                 ("C09", "World ownership through catch_unwind / Arc conversions"),
                 ("C10", "unwinding through the async state machines with String / &str / custom / integer payloads; payload ownership")):
    PROPS[_p]["miri"] = dict(MIRI_RUN)
    PROPS[_p]["assumptions"] = PROPS[_p]["assumptions"] + [f"thorough tier adds a Miri shard (160 small cases, feature set without `tracing`): {_why}; a Miri diagnostic is reported as a violation"]

NOT_APPLICABLE = {}

ENGINES = [
    {"name": "vt", "path": "harness/vt", "serves_properties": ["C20"],
     "kind_free_text": "one-run-per-process binary: Cucumber facade with init_tracing() driven by the gate scheduler; log ids joined with the callback log"},
    {"name": "zoo", "path": "harness/zoo", "serves_properties": ["C19"],
     "kind_free_text": "binary with annotated step functions compiled by /repo/codegen + hand-written matcher/argument table + text corpus"},
    {"name": "vpure", "path": "harness/vh (src/pure.rs)", "serves_properties": ["C15", "C16", "C17", "C18"],
     "kind_free_text": "reference-model monitors: the real function is called on seeded inputs and compared with a small oracle written from the statement"},
    {"name": "vstream", "path": "harness/vh (src/synth.rs, src/recw.rs, src/oracles_stream.rs)",
     "serves_properties": ["C11", "C12", "C13", "C14"],
     "kind_free_text": "synthetic + recorded event streams pushed through the real writers into recording writers; per-call prefix oracles (Normalize), independent fold (Summarize), token-exact transparency checks (combinators)"},
    {"name": "vrun", "path": "harness/vh (src/exec.rs, src/world.rs, src/oracles_run.rs)",
     "serves_properties": ["C01", "C02", "C03", "C04", "C05", "C06", "C07", "C08", "C09", "C10", "C18"],
     "kind_free_text": "manual executor polling runner::Basic's real event stream; instrumented World/hooks/steps with scheduler-controlled gates; lazy parser stream; quiescent-point invariants; CPU-time watchdog for in-poll spins"},
]
