//! `vt` - C20 monitor. One run per process (the tracing subscriber is global):
//! in shard mode it re-executes itself once per case and merges the results.

use std::{cell::RefCell, collections::VecDeque, io::Write as _, pin::Pin, process::Command, rc::Rc, task::Poll};

use cucumber::{Cucumber, Parser, Writer, cli, runner, writer};
use futures::{FutureExt as _, StreamExt as _, stream};
use serde_json::{Value, json};
use tracing_subscriber::{Layer as _, filter::{LevelFilter, Targets}, fmt::format::{DefaultFields, Format}, layer::SubscriberExt as _};
use vh::{analysis::Analysis, evrec::Item, exec, oracles_trace, report::Tally, spec, world::{self, TW}};

/// Hands the prepared stream out once; cloneable, so that the whole `Cucumber` value is.
#[derive(Clone)]
struct P(std::rc::Rc<std::cell::RefCell<Option<exec::LazyParser>>>);
impl Parser<()> for P {
    type Cli = cli::Empty;
    type Output = exec::LazyParser;
    fn parse(self, (): (), _: cli::Empty) -> exec::LazyParser {
        self.0.borrow_mut().take().expect("parsed once")
    }
}

#[derive(Clone, Default)]
struct Push(Rc<RefCell<VecDeque<Item>>>);
impl Writer<TW> for Push {
    type Cli = cli::Empty;
    async fn handle_event(&mut self, ev: Item, _: &cli::Empty) {
        self.0.borrow_mut().push_back(ev);
    }
}
// raw events are wanted: the oracle looks at the runner's own order
impl writer::Normalized for Push {}
impl writer::NonTransforming for Push {}

/// World of a sibling run: another `Cucumber` of the same test binary, driven concurrently with the
/// traced one. Only one run can own the collector; the sibling's spans still go to the global
/// subscriber, so its lines carry scenario ids the collector has never been told about.
#[derive(Debug, Default, cucumber::World)]
struct SW;

/// Stays pending once without asking to be woken: the sibling advances whenever its owner is polled.
struct Breather(bool);
impl std::future::Future for Breather {
    type Output = ();
    fn poll(mut self: Pin<&mut Self>, _: &mut std::task::Context<'_>) -> Poll<()> {
        if self.0 {
            Poll::Ready(())
        } else {
            self.0 = true;
            Poll::Pending
        }
    }
}

fn sibling_step(_: &mut SW, _: cucumber::step::Context) -> futures::future::LocalBoxFuture<'_, ()> {
    Box::pin(async {
        for i in 0..40 {
            // (a few lines per poll: whatever is queued behind them has to get past all of them)
            for k in 0..(1 + i % 4) {
                tracing::error!("OUT:sibling run line {i}.{k}");
            }
            Breather(false).await;
        }
    })
}

fn sibling_run() -> futures::stream::LocalBoxStream<'static, cucumber::parser::Result<cucumber::Event<cucumber::event::Cucumber<SW>>>> {
    use cucumber::{Runner as _, gherkin};
    let at = gherkin::LineCol { line: 1, col: 1 };
    let span = gherkin::Span { start: 0, end: 0 };
    let step = |text: &str| gherkin::Step { keyword: "Given ".into(), ty: gherkin::StepType::Given, value: text.into(), docstring: None, table: None, span, position: at };
    let scenario = |name: &str| gherkin::Scenario { keyword: "Scenario".into(), name: name.into(), description: None, steps: vec![step("sibling"), step("sibling")], examples: vec![], tags: vec![], span, position: at };
    let feature = gherkin::Feature { keyword: "Feature".into(), name: "sibling".into(), description: None, background: None, scenarios: vec![scenario("one"), scenario("two")], rules: vec![], tags: vec![], span, position: at, path: None };
    runner::Basic::<SW>::default()
        .given(regex::Regex::new("^sibling$").unwrap(), sibling_step)
        .max_concurrent_scenarios(2)
        .run(stream::iter(vec![Ok(feature)]), runner::basic::Cli::default())
        .boxed_local()
}

fn single(seed: u64, idx: u64) -> Tally {
    let prof = spec::Profile::by_name("c20");
    let mut case = spec::generate(&prof, seed, idx);
    // a custom `which_scenario` only where the runner is configured through the `Cucumber` facade
    case.cfg.custom_which = case.cfg.custom_which && idx % 3 == 2;
    world::reset(case.plan.clone(), case.world_plan.clone(), case.world_gates);
    world::with_rs(|rs| rs.emit_logs = true);
    // how the user's subscriber is configured:
    //   0: `init_tracing()`
    //   1: only `WARN` and above get through (the program logs at `WARN`/`ERROR`)
    //   2: only the program's own targets get through, i.e. the library's own spans are disabled:
    //      no line can be attributed then, and each one goes to every running scenario
    let tmode = match idx % 7 {
        5 => 1,
        6 => 2,
        _ => 0,
    };
    world::with_rs(|rs| rs.log_loud = tmode == 1);
    let (parser, shared) = exec::parser_for(&case);
    let sink = Push::default();
    let opts = cli::Opts::<cli::Empty, runner::basic::Cli, cli::Empty, cli::Empty> { runner: exec::runner_cli(&case.cfg), ..Default::default() };
    // The facade's type depends on which hooks are set: one arm per combination.
    macro_rules! facade {
        ($r:expr) => {
{
            let c = Cucumber::<TW, P, (), _, Push, cli::Empty>::custom(P(std::rc::Rc::new(std::cell::RefCell::new(Some(parser)))), $r, sink.clone()).with_cli(opts);
            match tmode {
                0 => c.init_tracing(),
                1 => c.configure_and_init_tracing(DefaultFields::new(), Format::default(), |layer| tracing_subscriber::registry().with(LevelFilter::WARN.and_then(layer))),
                _ => c.configure_and_init_tracing(DefaultFields::new(), Format::default(), |layer| {
                    tracing_subscriber::registry().with(Targets::new().with_target("vh", tracing::Level::INFO).with_target("vt", tracing::Level::INFO).and_then(layer))
                }),
            }
            }
        };
    }
    // every 5th run runs a clone of the fully configured `Cucumber` value (the original is dropped)
    let clone_facade = idx % 5 == 3;
    // every 4th run wraps the writer through a `Cucumber`-level method after everything else is
    // configured (both wrappers are given a predicate that selects nothing, so the stream is the same)
    let wrap = match idx % 8 {
        2 => 1,
        6 => 2,
        _ => 0,
    };
    macro_rules! fin {
        ($cuc:expr) => {{
            let c = $cuc;
            let f: Pin<Box<dyn std::future::Future<Output = ()>>> = if clone_facade {
                let copy = c.clone();
                drop(c);
                Box::pin(copy.run(()).map(drop))
            } else {
                Box::pin(c.run(()).map(drop))
            };
            f
        }};
    }
    macro_rules! go {
        ($cuc:expr) => {{
            let c = $cuc;
            match wrap {
                1 => fin!(c.repeat_if(|_| false)),
                2 => fin!(c.fail_on_skipped_with(|_, _, _| false)),
                _ => fin!(c),
            }
        }};
    }
    // every 3rd run configures a bare runner through the `Cucumber`-level builder methods
    // (steps, limits, retries, fail-fast, hooks) instead of through `runner::Basic`'s own
    let through_facade = idx % 3 == 2;
    let (bh, ah) = (case.cfg.before_hook, case.cfg.after_hook);
    let mut fut = if through_facade {
        let cfg = case.cfg.clone();
        let (re, a, b) = exec::step_regexes();
        let mut c = facade!(runner::Basic::<TW>::default());
        if let Some(x) = cfg.b_concurrency {
            c = c.max_concurrent_scenarios(x);
        }
        if let Some(n) = cfg.b_retry {
            c = c.retries(n);
        }
        if let Some(d) = cfg.b_retry_after_us {
            c = c.retry_after(std::time::Duration::from_micros(d));
        }
        if let Some(f) = &cfg.b_filter {
            c = c.retry_filter(f.parse::<cucumber::gherkin::tagexpr::TagOperation>().expect("tagexpr"));
        }
        if cfg.b_ff {
            c = c.fail_fast();
        }
        if cfg.resume {
            c = c.retry_options(|f, rule, sc, cli| match spec::resumed_tag(&sc.tags) {
                Some((current, left)) => Some(runner::basic::RetryOptions { retries: cucumber::event::Retries { current, left }, after: None }),
                None => runner::basic::RetryOptions::parse_from_tags(f, rule, sc, cli),
            });
        }
        if cfg.custom_which {
            // (a plain function, so the type stays the default one)
            c = c.which_scenario(exec::custom_which as runner::basic::WhichScenarioFn);
        }
        c = c.given(re.clone(), world::step_fn).when(re.clone(), world::step_fn).then(re, world::step_fn);
        c = c
            .given(a.clone(), world::step_fn)
            .given(b.clone(), world::step_fn)
            .when(a.clone(), world::step_fn)
            .when(b.clone(), world::step_fn)
            .then(a, world::step_fn)
            .then(b, world::step_fn);
        match (bh, ah) {
            (true, true) if case.sched_seed % 2 == 1 => go!(c.after(world::after_hook).before(world::before_hook)),
            (true, true) => go!(c.before(world::before_hook).after(world::after_hook)),
            (true, false) => go!(c.before(world::before_hook)),
            (false, true) => go!(c.after(world::after_hook)),
            (false, false) => go!(c),
        }
    } else {
        let base = exec::base_runner(&case.cfg);
        match (bh, ah) {
            (true, true) => go!(facade!(base.before(world::before_hook).after(world::after_hook))),
            (true, false) => go!(facade!(base.before(world::before_hook))),
            (false, true) => go!(facade!(base.after(world::after_hook))),
            (false, false) => go!(facade!(base)),
        }
    };
    // every 4th run is polled inside the user's own (enabled) span, as a test binary that
    // instruments its whole suite would do; created after init_tracing() installed the subscriber
    let outer = idx % 4 == 1;
    if outer {
        // ... carrying fields of its own, among them unsigned integers in the range of scenario ids
        let worker = idx % 5;
        fut = Box::pin(tracing::Instrument::instrument(fut, tracing::info_span!("whole-suite", worker, pid = std::process::id(), name = "suite")));
    }
    let q = sink.0.clone();
    let mut done = false;
    // every 6th run has a sibling run next to it in the same process (polled whenever this one is)
    let with_sibling = idx % 6 == 4;
    let sibling = Rc::new(RefCell::new(with_sibling.then(sibling_run)));
    {
        // the sibling also gets a turn before every line a callback of this run logs: its lines land
        // in between this run's
        let sib = Rc::clone(&sibling);
        world::set_log_hook(Some(Box::new(move || {
            let mut slot = sib.borrow_mut();
            if let Some(s) = slot.as_mut() {
                let waker = futures::task::noop_waker();
                let mut cx = std::task::Context::from_waker(&waker);
                if let Poll::Ready(None) = s.poll_next_unpin(&mut cx) {
                    *slot = None;
                }
            }
        })));
    }
    let stream = stream::poll_fn(move |cx| {
        if let Some(it) = q.borrow_mut().pop_front() {
            return Poll::Ready(Some(it));
        }
        if done {
            return Poll::Ready(None);
        }
        if fut.as_mut().poll(cx).is_ready() {
            done = true;
        }
        // (after the traced run: it is the one that started first and took the process panic hook first)
        if !done {
            let mut slot = sibling.borrow_mut();
            if let Some(sib) = slot.as_mut() {
                if let Poll::Ready(None) = sib.poll_next_unpin(cx) {
                    *slot = None;
                }
            }
        }
        match q.borrow_mut().pop_front() {
            Some(it) => Poll::Ready(Some(it)),
            None if done => Poll::Ready(None),
            None => Poll::Pending,
        }
    })
    .boxed_local();
    let out = exec::drive(&case, shared, stream);
    world::set_log_hook(None);
    let an = Analysis::new(&case, &out);
    let mut t = Tally::default();
    t.evaluations = 1;
    t.count("events", out.evs.len() as u64);
    t.count("callbacks", out.cbs.len() as u64);
    t.count("qpoints", out.qpoints.len() as u64);
    t.interleavings.insert(out.sched_hash);
    t.count("c20.runs_inside_an_outer_span", u64::from(outer));
    t.count("worlds_holding_a_child_of_their_scenario_span", world::with_rs(|rs| rs.scenario_span_holds));
    t.count("runs_configured_through_the_cucumber_facade", u64::from(through_facade));
    t.count("runs_with_which_scenario_set_at_the_cucumber_facade", u64::from(through_facade && case.cfg.custom_which));
    t.count("runs_with_a_writer_wrapper_added_at_the_cucumber_facade", u64::from(wrap != 0));
    t.count("runs_with_a_sibling_run_logging_in_the_same_process", u64::from(with_sibling));
    t.count("runs_of_a_cloned_cucumber_value", u64::from(clone_facade));
    t.count("c20.deferred_in_span_logs_fired", out.qpoints.iter().filter(|q| q.decision.contains("deferred")).count() as u64);
    t.count("lines_logged_outside_any_span_from_inside_callbacks", world::with_rs(|rs| rs.helper_logs.min(40)));
    t.count("c20.lines_logged_through_the_log_facade", world::with_rs(|rs| rs.log_facade_lines));
    t.count("c20.runs_with_a_warn_level_filter", u64::from(tmode == 1));
    t.count("runs_with_the_librarys_own_spans_filtered_out", u64::from(tmode == 2));
    if tmode != 2 {
        oracles_trace::c20(&an, &mut t, idx);
    } else {
        let late = world::with_rs(|rs| rs.late_ids.clone());
        oracles_trace::c20_unattributed(&an, &mut t, idx, &late);
    }
    // the same real run also feeds the runner oracles: this is the only workload
    // in which the runner is compiled with its `tracing` code paths
    vh::oracles_run::check_all(&an, &mut t, idx);
    t.sample("vt", 1, || json!({"case_index": idx, "case": case.describe(), "stream": vh::evrec::render(&out.evs)}));
    t
}

fn main() {
    let mut args: Vec<String> = std::env::args().collect();
    if args.len() == 1 {
        // a child run: its arguments come through the environment and its own command line stays bare,
        // so that library code which (wrongly) falls back to parsing the process's arguments finds
        // nothing there instead of exiting the process
        if let Ok(v) = std::env::var("VT_ARGS") {
            args.extend(v.split('\u{1f}').map(str::to_owned));
        }
    }
    let get = |k: &str, d: &str| args.iter().position(|a| a == k).and_then(|i| args.get(i + 1)).cloned().unwrap_or_else(|| d.to_owned());
    let seed: u64 = get("--seed", "1").parse().unwrap();
    let out = get("--out", "/dev/stdout");
    if let Some(i) = args.iter().position(|a| a == "--single") {
        let idx: u64 = args[i + 1].parse().unwrap();
        let t = single(seed, idx);
        let mut v = t.to_json();
        v["status"] = json!("done");
        std::fs::write(&out, v.to_string()).expect("write");
        return;
    }
    let start: u64 = get("--start", "0").parse().unwrap();
    let count: u64 = get("--count", "10").parse().unwrap();
    let verbose = get("--verbose", "0") != "0";
    let exe = std::env::current_exe().expect("exe");
    let mut merged: Option<Value> = None;
    let mut failures = Vec::new();
    for idx in start..start + count {
        let tmp = format!("{out}.case{idx}");
        let st = Command::new(&exe).env("VT_ARGS", ["vt", "--single", &idx.to_string(), "--seed", &seed.to_string(), "--out", &tmp].join("\u{1f}")).output();
        let ok = st.as_ref().is_ok_and(|s| s.status.success());
        let v: Option<Value> = std::fs::read_to_string(&tmp).ok().and_then(|s| serde_json::from_str(&s).ok());
        let _ = std::fs::remove_file(&tmp);
        let Some(v) = v.filter(|_| ok) else {
            failures.push(format!("case {idx}: child failed: {}", st.map(|s| String::from_utf8_lossy(&s.stderr).chars().take(300).collect::<String>()).unwrap_or_default()));
            continue;
        };
        if verbose {
            for x in v["violations"].as_array().unwrap() {
                eprintln!("case {idx}: {} {}", x["signature"], x["detail"]);
            }
        }
        merged = Some(match merged {
            None => v,
            Some(mut m) => {
                m["evaluations"] = json!(m["evaluations"].as_u64().unwrap() + v["evaluations"].as_u64().unwrap());
                for k in ["counters", "nontrivial_cases"] {
                    for (name, n) in v[k].as_object().unwrap() {
                        let cur = m[k].get(name).and_then(Value::as_u64).unwrap_or(0);
                        m[k][name] = json!(cur + n.as_u64().unwrap());
                    }
                }
                for (p, sigs) in v["nontrivial"].as_object().unwrap() {
                    let mut cur: Vec<Value> = m["nontrivial"].get(p).and_then(|x| x.as_array().cloned()).unwrap_or_default();
                    cur.extend(sigs.as_array().unwrap().iter().cloned());
                    m["nontrivial"][p] = json!(cur);
                }
                for k in ["interleavings", "violations", "inconclusive"] {
                    let mut cur = m[k].as_array().cloned().unwrap_or_default();
                    cur.extend(v[k].as_array().unwrap().iter().cloned());
                    m[k] = json!(cur);
                }
                m
            }
        });
    }
    let mut m = merged.unwrap_or_else(|| json!({"evaluations": 0, "nontrivial": {}, "nontrivial_cases": {}, "counters": {}, "interleavings": [], "samples": {}, "violations": [], "inconclusive": []}));
    let mut inc = m["inconclusive"].as_array().cloned().unwrap_or_default();
    inc.extend(failures.into_iter().map(Value::from));
    m["inconclusive"] = json!(inc);
    m["status"] = json!("done");
    let mut f = std::fs::File::create(&out).expect("out");
    f.write_all(m.to_string().as_bytes()).expect("write");
}
