//! Oracles over writers fed with event streams: C11 (Normalize), C12
//! (Summarize counters), C13 (combinator transparency).

use std::collections::{BTreeMap, HashMap, HashSet};

use cucumber::{
    Writer, WriterExt as _, cli,
    writer::{self, Stats},
};
use futures::executor::block_on;
use serde_json::{Value, json};

use crate::{
    evrec::{self, Ev, HookEv, Item, Rec, ScEv, StepErr, StepEv},
    recw::{Got, RecW, Shared, same_event},
    report::Tally,
    rng::{Rng, fnv},
    synth::{Kind, SynthStream, token_of},
    world::TW,
};

fn fps(items: &[Item]) -> Vec<Rec> {
    items.iter().enumerate().map(|(i, it)| evrec::fingerprint(it, i, 0, 0, 0)).collect()
}

fn shorts(recs: &[Rec]) -> Vec<String> {
    recs.iter().map(Rec::short).collect()
}

fn viol(t: &mut Tally, prop: &str, sig: &str, detail: String, idx: u64, input: &[Rec], extra: Value) {
    t.violation(prop, sig, detail, idx, json!({"input": shorts(input), "extra": extra}));
}

// ---------------------------------------------------------------------------
// C11

pub fn c11(s: &SynthStream, t: &mut Tally, idx: u64) {
    let input = fps(&s.items);
    let (rec, sh) = RecW::new();
    let mut norm = writer::Normalize::<TW, RecW>::new(rec);
    let n = s.items.len();

    // ids of entities per input index
    let att_of: Vec<Option<(usize, usize)>> = s.meta.iter().map(|m| m.sc).collect();
    let mut fwd = vec![false; n];
    let mut recv_att: HashMap<(usize, usize), usize> = HashMap::new();
    let mut fwd_att: HashMap<(usize, usize), usize> = HashMap::new();
    let mut open_att: HashSet<(usize, usize)> = HashSet::new();
    let mut open_rule: HashSet<usize> = HashSet::new();
    let mut open_feat: HashSet<usize> = HashSet::new();
    let mut buf_rule: HashMap<usize, i64> = HashMap::new();
    let mut buf_feat: HashMap<usize, i64> = HashMap::new();
    let mut buffered_total: i64 = 0;
    let mut out_len = 0usize;
    let mut out_tokens: Vec<usize> = Vec::new(); // input index per output position
    let mut err_in: Vec<usize> = Vec::new();
    let mut err_out = 0usize;
    let mut v: Vec<(String, String)> = Vec::new();
    let mut max_buffered = 0i64;

    // every 3rd case hands the rest of the stream to a clone of the writer taken mid-run (the
    // original is dropped): a clone is the same writer in the same state
    let clone_at = (idx % 3 == 2 && n > 2).then(|| 1 + (idx as usize / 3) % (n - 1));
    for i in 0..n {
        if clone_at == Some(i) {
            let copy = norm.clone();
            drop(std::mem::replace(&mut norm, copy));
            t.count("c11.streams_continued_on_a_clone", 1);
        }
        sh.call.set(i);
        let fed = std::panic::catch_unwind(std::panic::AssertUnwindSafe(|| block_on(norm.handle_event(s.items[i].clone(), &cli::Empty))));
        if fed.is_err() {
            viol(t, "C11", "normalize:panicked", format!("Normalize panicked on input #{i} {} (cloned before input {clone_at:?})", input[i].short()), idx, &input, json!({"sequential": s.sequential}));
            return;
        }
        // input i received
        let m = &s.meta[i];
        if m.kind == Kind::ParseErr {
            err_in.push(i);
        }
        buffered_total += 1;
        if let Some(a) = att_of[i] {
            *recv_att.entry(a).or_insert(0) += 1;
        }
        if let Some(r) = m.r {
            *buf_rule.entry(r).or_insert(0) += 1;
        }
        if let Some(f) = m.f {
            *buf_feat.entry(f).or_insert(0) += 1;
        }
        // new output
        let log = sh.log.borrow();
        while out_len < log.len() {
            let Got::Event { token, fp, .. } = &log[out_len] else {
                v.push(("unexpected-write".into(), "Normalize wrote an arbitrary value".into()));
                out_len += 1;
                continue;
            };
            out_len += 1;
            let j = match token {
                Some(tk) => *tk as usize,
                None => {
                    // parser errors carry no metadata: matched in order
                    let j = err_in.get(err_out).copied();
                    err_out += 1;
                    match j {
                        Some(j) => j,
                        None => {
                            v.push(("phantom-event".into(), format!("forwarded an error that was not received: {}", fp.short())));
                            continue;
                        }
                    }
                }
            };
            if j >= n || j > i {
                v.push(("phantom-event".into(), format!("forwarded an event not received yet: {}", fp.short())));
                continue;
            }
            if fwd[j] {
                v.push(("duplicate".into(), format!("event forwarded twice: {}", fp.short())));
                continue;
            }
            if !same_event(fp, &input[j]) {
                v.push(("altered".into(), format!("forwarded {} for input {}", fp.short(), input[j].short())));
            }
            fwd[j] = true;
            out_tokens.push(j);
            buffered_total -= 1;
            let mj = &s.meta[j];
            if let Some(r) = mj.r {
                *buf_rule.entry(r).or_insert(0) -= 1;
            }
            if let Some(f) = mj.f {
                *buf_feat.entry(f).or_insert(0) -= 1;
            }
            if let Some(a) = att_of[j] {
                *fwd_att.entry(a).or_insert(0) += 1;
                match input[j].is_sc() {
                    Some(ScEv::Started) => {
                        open_att.insert(a);
                    }
                    Some(ScEv::Finished) => {
                        open_att.remove(&a);
                    }
                    _ => {}
                }
            }
            match mj.kind {
                Kind::FeatStarted => {
                    open_feat.insert(mj.f.unwrap());
                }
                Kind::FeatFinished => {
                    open_feat.remove(&mj.f.unwrap());
                }
                Kind::RuleStarted => {
                    open_rule.insert(mj.r.unwrap());
                }
                Kind::RuleFinished => {
                    open_rule.remove(&mj.r.unwrap());
                }
                _ => {}
            }
        }
        drop(log);
        max_buffered = max_buffered.max(buffered_total);
        if !v.is_empty() {
            break;
        }
        // ---- predicates on (input prefix, output prefix) ----
        if matches!(m.kind, Kind::RunStarted | Kind::ParsingFinished | Kind::ParseErr) && !fwd[i] {
            v.push(("pass-through".into(), format!("{} not forwarded when its call returned", input[i].short())));
        }
        for a in &open_att {
            if recv_att.get(a) != fwd_att.get(a) {
                v.push((
                    "head-attempt-stalled".into(),
                    format!("attempt {a:?} is open in the output but {} of its {} received events are forwarded (after input {})", fwd_att.get(a).unwrap_or(&0), recv_att[a], input[i].short()),
                ));
            }
        }
        for r in &open_rule {
            let has_open = open_att.iter().any(|(sc, _)| s.meta.iter().any(|m| m.sc.map(|x| x.0) == Some(*sc) && m.r == Some(*r)));
            if !has_open && buf_rule.get(r).copied().unwrap_or(0) > 0 {
                v.push(("head-rule-stalled".into(), format!("rule {r} is open with no open attempt, yet {} of its events are buffered (after input {})", buf_rule[r], input[i].short())));
            }
        }
        for f in &open_feat {
            let has_open = open_rule.iter().any(|r| s.meta.iter().any(|m| m.r == Some(*r) && m.f == Some(*f)))
                || open_att.iter().any(|(sc, _)| s.meta.iter().any(|m| m.sc.map(|x| x.0) == Some(*sc) && m.f == Some(*f)));
            if !has_open && buf_feat.get(f).copied().unwrap_or(0) > 0 {
                v.push(("head-feature-stalled".into(), format!("feature {f} is open with nothing open inside, yet {} of its events are buffered (after input {})", buf_feat[f], input[i].short())));
            }
        }
        if open_feat.is_empty() {
            let only_finish = (0..=i).filter(|j| !fwd[*j]).all(|j| s.meta[j].kind == Kind::RunFinished);
            if !only_finish {
                v.push(("nothing-open-but-buffered".into(), format!("no feature is open in the output, yet events are buffered (after input {})", input[i].short())));
            }
        }
        if s.sequential && (out_tokens.len() != i + 1 || out_tokens[i] != i) {
            v.push(("sequential-not-identity".into(), format!("sequential input: after {} events the output has {} events", i + 1, out_tokens.len())));
        }
        if !v.is_empty() {
            break;
        }
    }

    if v.is_empty() {
        // ---- final shape ----
        if fwd.iter().any(|f| !f) {
            let lost: Vec<String> = (0..n).filter(|j| !fwd[*j]).take(5).map(|j| input[j].short()).collect();
            v.push(("lost".into(), format!("events never forwarded: {lost:?}")));
        }
        if out_tokens.last().map(|j| &s.meta[*j].kind) != Some(&Kind::RunFinished) {
            v.push(("run-finished-not-last".into(), "run-Finished is not the last forwarded event".into()));
        }
        // contiguity and nesting over the output
        let mut closed_feat: HashSet<usize> = HashSet::new();
        let mut closed_rule: HashSet<usize> = HashSet::new();
        let mut closed_att: HashSet<(usize, usize)> = HashSet::new();
        let mut cur_f: Option<usize> = None;
        let mut cur_r: Option<usize> = None;
        let mut cur_a: Option<(usize, usize)> = None;
        let mut last_tok_att: HashMap<(usize, usize), usize> = HashMap::new();
        let mut last_attempt_of_sc: HashMap<usize, usize> = HashMap::new();
        for &j in &out_tokens {
            let m = &s.meta[j];
            let bad = |what: &str| (what.to_owned(), format!("output breaks nesting/contiguity at {}", input[j].short()));
            match m.kind {
                Kind::FeatStarted => {
                    if cur_f.is_some() || closed_feat.contains(&m.f.unwrap()) {
                        v.push(bad("feature-not-contiguous"));
                    }
                    cur_f = m.f;
                }
                Kind::FeatFinished => {
                    if cur_f != m.f || cur_r.is_some() || cur_a.is_some() {
                        v.push(bad("bracket-nesting"));
                    }
                    closed_feat.insert(m.f.unwrap());
                    cur_f = None;
                }
                Kind::RuleStarted => {
                    if cur_f != m.f || cur_r.is_some() || cur_a.is_some() || closed_rule.contains(&m.r.unwrap()) {
                        v.push(bad("rule-not-contiguous"));
                    }
                    cur_r = m.r;
                }
                Kind::RuleFinished => {
                    if cur_r != m.r || cur_a.is_some() {
                        v.push(bad("bracket-nesting"));
                    }
                    closed_rule.insert(m.r.unwrap());
                    cur_r = None;
                }
                Kind::Sc => {
                    let a = m.sc.unwrap();
                    if cur_f != m.f || cur_r != m.r {
                        v.push(bad("scenario-outside-its-bracket"));
                    }
                    match input[j].is_sc() {
                        Some(ScEv::Started) => {
                            if cur_a.is_some() || closed_att.contains(&a) {
                                v.push(bad("attempt-not-contiguous"));
                            }
                            if last_attempt_of_sc.get(&a.0).is_some_and(|k| *k >= a.1) {
                                v.push(bad("attempt-order"));
                            }
                            last_attempt_of_sc.insert(a.0, a.1);
                            cur_a = Some(a);
                        }
                        _ => {
                            if cur_a != Some(a) {
                                v.push(bad("attempt-not-contiguous"));
                            }
                        }
                    }
                    if last_tok_att.get(&a).is_some_and(|p| *p > j) {
                        v.push(bad("attempt-events-reordered"));
                    }
                    last_tok_att.insert(a, j);
                    if matches!(input[j].is_sc(), Some(ScEv::Finished)) {
                        closed_att.insert(a);
                        cur_a = None;
                    }
                }
                Kind::RunFinished => {
                    if cur_f.is_some() {
                        v.push(bad("bracket-nesting"));
                    }
                }
                _ => {}
            }
            if v.len() > 3 {
                break;
            }
        }
    }

    t.evaluations += 1;
    t.count("c11.handle_event_calls", n as u64);
    t.count("c11.calls_with_buffered", 0);
    if (s.n_features >= 2 || s.n_rules >= 1) && max_buffered > 0 {
        let h = s.meta.iter().fold(0xcbf2_9ce4_8422_2325u64, |h, m| {
            (h ^ (m.sc.map_or(977, |x| x.0 * 7 + x.1) as u64 + 13 * m.f.unwrap_or(99) as u64)).wrapping_mul(0x0000_0100_0000_01b3)
        });
        t.nontrivial("C11", h);
        t.nontrivial_case("C11");
    }
    let e = t.counters.entry("c11.max_buffered_max".into()).or_insert(0);
    *e = (*e).max(max_buffered as u64);
    t.sample("c11", 2, || json!({"case_index": idx, "sequential": s.sequential, "input": shorts(&input), "output_order": out_tokens}));
    if let Some((sig, msg)) = v.into_iter().next() {
        viol(t, "C11", &format!("normalize:{sig}"), msg, idx, &input, json!({"output_order": out_tokens, "sequential": s.sequential}));
    }
}

// ---------------------------------------------------------------------------
// C12

#[derive(Debug, Default, Clone, PartialEq, Eq)]
pub struct Counts {
    pub steps: [usize; 4],     // passed, skipped, failed, retried
    pub scenarios: [usize; 3], // passed, skipped, failed
    pub parsing: usize,
    pub hooks: usize,
    pub features: usize,
    pub rules: usize,
}

#[derive(Default)]
struct ScAcc {
    attempts: Vec<(Option<(usize, usize)>, bool, bool, bool, bool)>, // (retries, finished, step_failed, hook_failed, skipped)
    retried_failure: bool,
    hook_failed_nonfinal: bool,
    /// The current (last) attempt passed at least one non-background step.
    last_attempt_own_passed: bool,
    not_found_last: bool,
}

/// Independent fold over a normalized stream, written from the statement.
/// Returns the expected counts and, per scenario, its classification.
fn fold(recs: &[Rec]) -> (Counts, BTreeMap<(usize, usize, usize), ScAcc>) {
    let mut c = Counts::default();
    let mut sc: BTreeMap<(usize, usize, usize), ScAcc> = BTreeMap::new();
    for r in recs {
        match &r.ev {
            Ev::Finished => break, // events replayed after run-Finished change nothing
            Ev::ParseErr(_) => c.parsing += 1,
            Ev::FeatStarted => c.features += 1,
            Ev::RuleStarted => c.rules += 1,
            Ev::Sc(sev) => {
                let key = (r.f.map_or(0, |f| f.ptr), r.r.map_or(0, |x| x.ptr), r.s.map_or(0, |s| s.ptr));
                let acc = sc.entry(key).or_default();
                if !acc.attempts.last().is_some_and(|a| a.0 == r.retries && !a.1) {
                    acc.attempts.push((r.retries, false, false, false, false));
                    acc.last_attempt_own_passed = false;
                    acc.not_found_last = false;
                }
                if let ScEv::Step { bg: false, ev: StepEv::Passed, .. } = sev {
                    acc.last_attempt_own_passed = true;
                }
                if let ScEv::Step { ev: StepEv::Failed { err: StepErr::NotFound, .. }, .. } = sev {
                    acc.not_found_last = true;
                }
                let a = acc.attempts.last_mut().unwrap();
                let left = r.retries.map_or(0, |x| x.1);
                match sev {
                    ScEv::Finished => a.1 = true,
                    ScEv::Hook { ev: HookEv::Failed { .. }, .. } => {
                        c.hooks += 1;
                        a.3 = true;
                        if left > 0 {
                            acc.hook_failed_nonfinal = true;
                        }
                    }
                    ScEv::Step { ev, .. } => match ev {
                        StepEv::Passed => c.steps[0] += 1,
                        StepEv::Skipped => {
                            c.steps[1] += 1;
                            a.4 = true;
                        }
                        StepEv::Failed { err, .. } => {
                            a.2 = true;
                            if left == 0 || matches!(err, StepErr::NotFound) {
                                c.steps[2] += 1;
                            } else {
                                c.steps[3] += 1;
                                acc.retried_failure = true;
                            }
                        }
                        StepEv::Started => {}
                    },
                    _ => {}
                }
            }
            _ => {}
        }
    }
    for acc in sc.values() {
        // terminal attempt: the last one, completed, and passed / skipped / failed with nothing left
        if let Some(&(retries, finished, sf, hf, sk)) = acc.attempts.last() {
            let failed = sf || hf;
            let left = retries.map_or(0, |x| x.1);
            // a not-found failure is a skipped step turned into a failure: never retried
            let not_found_final = acc.not_found_last && !hf;
            if finished && (!failed || left == 0 || not_found_final) {
                if failed {
                    c.scenarios[2] += 1;
                } else if sk {
                    c.scenarios[1] += 1;
                } else {
                    c.scenarios[0] += 1;
                }
            }
        }
    }
    (c, sc)
}

/// What a summary of this (raw or normalized) stream has to state, from the independent fold.
pub fn expected_summary(items: &[Item]) -> serde_json::Value {
    let recs = fps(items);
    let (c, scs) = fold(&recs);
    let retried_bound = scs.values().filter(|a| a.retried_failure || a.hook_failed_nonfinal).count();
    json!({
        "features": c.features, "rules": c.rules,
        "scenarios": {"passed": c.scenarios[0], "skipped": c.scenarios[1], "failed": c.scenarios[2], "retried_at_most": retried_bound},
        "steps": {"passed": c.steps[0], "skipped": c.steps[1], "failed": c.steps[2], "retried": c.steps[3]},
        "parsing_errors": c.parsing, "hook_errors": c.hooks,
        "finished": recs.iter().any(|r| r.ev == Ev::Finished),
    })
}

/// ([passed, skipped, failed, retried] of the steps line, of the scenarios line, (parsing, hook) errors)
/// as the summary text states them; a line that cannot be read gives `None`.
#[allow(clippy::type_complexity)]
fn parse_summary_numbers(s: &str) -> (Option<[usize; 4]>, Option<[usize; 4]>, (usize, usize)) {
    fn stats(l: &str) -> Option<[usize; 4]> {
        let mut out = [0usize; 4];
        let total: usize = l.split_whitespace().next()?.parse().ok()?;
        if let Some(open) = l.find('(') {
            let inner = l[open + 1..].strip_suffix(')')?;
            let (body, retr) = match inner.find("with ") {
                Some(p) => (inner[..p].trim_end(), Some(&inner[p + 5..])),
                None => (inner, None),
            };
            for part in body.split(", ").filter(|p| !p.is_empty()) {
                let mut it = part.split(' ');
                let n: usize = it.next()?.parse().ok()?;
                match it.next()? {
                    "passed" => out[0] = n,
                    "skipped" => out[1] = n,
                    "failed" => out[2] = n,
                    _ => return None,
                }
            }
            if let Some(r) = retr {
                let mut it = r.split(' ');
                out[3] = it.next()?.parse().ok()?;
                if !matches!(it.next()?, "retry" | "retries") {
                    return None;
                }
            }
        }
        (total == out[0] + out[1] + out[2]).then_some(out)
    }
    let mut steps = None;
    let mut scen = None;
    let mut errs = (0, 0);
    for l in s.lines().map(str::trim) {
        let mut it = l.split_whitespace();
        let (Some(n), Some(w)) = (it.next(), it.next()) else { continue };
        if n.parse::<usize>().is_err() {
            continue;
        }
        if w.starts_with("scenario") {
            scen = stats(l);
        } else if w.starts_with("step") {
            steps = stats(l);
        } else if w == "parsing" || w == "hook" {
            for part in l.split(", ") {
                let mut it = part.split(' ');
                let (Some(n), Some(k)) = (it.next().and_then(|n| n.parse::<usize>().ok()), it.next()) else { continue };
                match k {
                    "parsing" => errs.0 = n,
                    "hook" => errs.1 = n,
                    _ => {}
                }
            }
        }
    }
    (steps, scen, errs)
}

fn parse_summary(s: &str) -> (Option<usize>, Option<usize>) {
    let mut feats = None;
    let mut rules = None;
    for l in s.lines() {
        let mut it = l.split_whitespace();
        let (Some(n), Some(w)) = (it.next(), it.next()) else { continue };
        let Ok(n) = n.parse::<usize>() else { continue };
        if w.starts_with("feature") {
            feats = Some(n);
        } else if w.starts_with("rule") {
            rules = Some(n);
        }
    }
    (feats, rules)
}

/// `items` must be a normalized, contract-abiding stream.
pub fn c12(items: &[Item], t: &mut Tally, idx: u64, label: &str) {
    // Streams containing the shapes of the recorded findings are evaluated a
    // second time with exactly those scenarios removed, so that an unrelated
    // miscount in the same stream is not masked by the known one.
    let recs = fps(items);
    let (_, scs) = fold(&recs);
    let bad: HashSet<(usize, usize, usize)> = scs
        .iter()
        .filter(|(_, a)| {
            a.hook_failed_nonfinal
                || (a.retried_failure && a.attempts.last().is_some_and(|l| l.3))
                || (a.retried_failure && a.attempts.last().is_some_and(|l| l.1 && !l.2 && !l.3 && !l.4) && !a.last_attempt_own_passed)
        })
        .map(|(k, _)| *k)
        .collect();
    c12_inner(items, t, idx, label, true);
    if !bad.is_empty() {
        let filtered: Vec<Item> = items
            .iter()
            .zip(&recs)
            .filter(|(_, r)| r.s.is_none() || !bad.contains(&(r.f.map_or(0, |f| f.ptr), r.r.map_or(0, |x| x.ptr), r.s.map_or(0, |s| s.ptr))))
            .map(|(i, _)| i.clone())
            .collect();
        t.count("c12.reevaluated_without_known_shapes", 1);
        c12_inner(&filtered, t, idx, &format!("{label}, scenarios with recorded shapes removed"), false);
    }
}

fn c12_inner(items: &[Item], t: &mut Tally, idx: u64, label: &str, primary: bool) {
    let recs = fps(items);
    let (exp, scs) = fold(&recs);

    let run = |mode: u8| -> (Counts, [usize; 4], Shared) {
        let (rec, sh) = RecW::new();
        let (got, retried_sc) = if mode == 2 {
            // a custom filter replaying everything, run-Finished itself included
            let mut w = writer::Summarize::new(rec).repeat_if(|_: &Item| true);
            block_on(async {
                for (i, it) in items.iter().enumerate() {
                    sh.call.set(i);
                    w.handle_event(it.clone(), &cli::Empty).await;
                }
            });
            (getters(&*w), w.scenarios_stats().retried)
        } else if mode == 1 {
            let mut w = writer::Summarize::new(rec).repeat_failed::<TW>();
            block_on(async {
                for (i, it) in items.iter().enumerate() {
                    sh.call.set(i);
                    w.handle_event(it.clone(), &cli::Empty).await;
                }
            });
            (getters(&*w), w.scenarios_stats().retried)
        } else {
            let mut w = writer::Summarize::new(rec);
            block_on(async {
                for (i, it) in items.iter().enumerate() {
                    sh.call.set(i);
                    w.handle_event(it.clone(), &cli::Empty).await;
                }
            });
            (getters(&w), w.scenarios_stats().retried)
        };
        (got.0, [got.1[0], got.1[1], got.1[2], retried_sc], sh)
    };
    fn getters(w: &writer::Summarize<RecW>) -> (Counts, [usize; 3]) {
        let st = w.steps_stats();
        let sc = w.scenarios_stats();
        (
            Counts {
                steps: [
                    Stats::<TW>::passed_steps(w),
                    Stats::<TW>::skipped_steps(w),
                    Stats::<TW>::failed_steps(w),
                    Stats::<TW>::retried_steps(w),
                ],
                scenarios: [sc.passed, sc.skipped, sc.failed],
                parsing: Stats::<TW>::parsing_errors(w),
                hooks: Stats::<TW>::hook_errors(w),
                features: 0,
                rules: 0,
            },
            [st.passed, st.skipped, st.failed],
        )
    }

    let (mut got, extra, sh) = run(0);
    let mut v: Vec<(String, String)> = Vec::new();
    // summary text: exactly once, first thing after the inner writer got run-Finished
    let log = sh.log.borrow().clone();
    let writes: Vec<usize> = log.iter().enumerate().filter(|(_, g)| matches!(g, Got::Write { .. })).map(|(i, _)| i).collect();
    let fin_pos = log.iter().position(|g| matches!(g, Got::Event { fp, .. } if fp.ev == Ev::Finished));
    let has_finished = recs.iter().any(|r| r.ev == Ev::Finished);
    if has_finished {
        if writes.len() != 1 || fin_pos.map(|p| p + 1) != writes.first().copied() {
            v.push(("summary-write".into(), format!("summary written {} time(s) at log positions {writes:?}; run-Finished reached the inner writer at {fin_pos:?}", writes.len())));
        } else if let Got::Write { val, .. } = &log[writes[0]] {
            // the text states the same numbers as the getters
            let (txt_steps, txt_scen, txt_errs) = parse_summary_numbers(val);
            let st = [got.steps[0], got.steps[1], got.steps[2], got.steps[3]];
            if txt_steps != Some(st) {
                v.push(("text-differs-from-getters".into(), format!("steps line of the written summary reads {txt_steps:?} [passed, skipped, failed, retried], the getters say {st:?}: {val:?}")));
            }
            let scn = [got.scenarios[0], got.scenarios[1], got.scenarios[2], extra[3]];
            if txt_scen != Some(scn) {
                v.push(("text-differs-from-getters".into(), format!("scenarios line of the written summary reads {txt_scen:?} [passed, skipped, failed, retried], the getters say {scn:?}: {val:?}")));
            }
            if txt_errs != (got.parsing, got.hooks) {
                v.push(("text-differs-from-getters".into(), format!("written summary states {txt_errs:?} (parsing, hook) errors, the getters say ({}, {}): {val:?}", got.parsing, got.hooks)));
            }
            let (f, r) = parse_summary(val);
            got.features = f.unwrap_or(0);
            got.rules = r.unwrap_or(0);
            if got.features != exp.features || got.rules != exp.rules {
                v.push(("brackets".into(), format!("summary says {} features / {} rules, stream has {} / {}", got.features, got.rules, exp.features, exp.rules)));
            }
        }
    }
    // every event reaches the inner writer unchanged
    let inner: Vec<&Rec> = log.iter().filter_map(|g| match g { Got::Event { fp, .. } => Some(fp), _ => None }).collect();
    if inner.len() != recs.len() || inner.iter().zip(&recs).any(|(a, b)| !same_event(a, b)) {
        v.push(("not-transparent".into(), "Summarize altered / dropped / added events on their way to the inner writer".into()));
    }
    if got.steps != exp.steps {
        v.push(("steps".into(), format!("step counters [passed, skipped, failed, retried] = {:?}, stream has {:?}", got.steps, exp.steps)));
    }
    if extra[..3] != got.steps[..3] {
        v.push(("steps-getters".into(), format!("steps_stats {:?} disagree with the Stats getters {:?}", &extra[..3], got.steps)));
    }
    if got.parsing != exp.parsing {
        v.push(("parsing-errors".into(), format!("parsing_errors = {}, stream has {}", got.parsing, exp.parsing)));
    }
    if got.hooks != exp.hooks {
        v.push(("hook-errors".into(), format!("hook_errors = {}, stream has {} Hook::Failed", got.hooks, exp.hooks)));
    }
    if got.scenarios != exp.scenarios {
        // classify: which scenarios have the shapes of the recorded finding?
        let f1 = scs.values().any(|a| a.hook_failed_nonfinal)
            || scs.values().any(|a| a.retried_failure && a.attempts.last().is_some_and(|l| l.3));
        let f2 = scs.values().any(|a| {
            a.retried_failure
                && a.attempts.last().is_some_and(|l| l.1 && !l.2 && !l.3 && !l.4)
                && !a.last_attempt_own_passed
        });
        let sig = if f1 {
            "scenarios:hook-failure-around-retry"
        } else if f2 {
            "scenarios:retried-then-passed-without-own-step"
        } else {
            "scenarios"
        };
        v.push((sig.into(), format!("scenario counters [passed, skipped, failed] = {:?}, terminal attempts give {:?}", got.scenarios, exp.scenarios)));
    }
    let retried_bound = scs.values().filter(|a| a.retried_failure || a.hook_failed_nonfinal).count();
    if extra[3] > retried_bound {
        let f1 = scs.values().any(|a| a.hook_failed_nonfinal);
        v.push((if f1 { "scenarios-retried:hook-failure-around-retry" } else { "scenarios-retried" }.into(), format!("scenarios.retried = {}, only {retried_bound} scenarios have a retried failure", extra[3])));
    }
    // with a Repeat wrapper replaying events after run-Finished nothing changes
    let (got3, extra3, sh3) = run(2);
    let mut g3 = got3.clone();
    g3.features = got.features;
    g3.rules = got.rules;
    if g3 != got || extra3 != extra {
        v.push(("replay-changes-counters".into(), format!("under repeat_if(everything) the counters are {got3:?}, without {got:?}")));
    }
    let w3 = sh3.log.borrow().iter().filter(|g| matches!(g, Got::Write { .. })).count();
    if has_finished && w3 != 1 {
        v.push(("summary-write-under-repeat".into(), format!("summary written {w3} times under repeat_if(everything)")));
    }
    let (got2, extra2, sh2) = run(1);
    let mut g2 = got2.clone();
    g2.features = got.features;
    g2.rules = got.rules;
    if g2 != got || extra2 != extra {
        v.push(("replay-changes-counters".into(), format!("under Repeat::failed the counters are {got2:?}, without {got:?}")));
    }
    let w2 = sh2.log.borrow().iter().filter(|g| matches!(g, Got::Write { .. })).count();
    if has_finished && w2 != 1 {
        v.push(("summary-write-under-repeat".into(), format!("summary written {w2} times under Repeat")));
    }

    if primary {
        t.evaluations += 1;
    }
    let word: Vec<String> = scs
        .values()
        .map(|a| a.attempts.iter().map(|x| format!("{}{}{}", u8::from(x.2), u8::from(x.3), u8::from(x.4))).collect::<Vec<_>>().join(">"))
        .collect();
    if scs.values().any(|a| a.attempts.len() > 1 || a.attempts.iter().any(|x| x.3 || x.4)) {
        let mut ws = word.clone();
        ws.sort();
        ws.dedup();
        for w in ws {
            t.nontrivial("C12", fnv(&w));
        }
        t.nontrivial_case("C12");
    }
    t.count("c12.scenarios_classified", scs.len() as u64);
    t.sample("c12", 2, || json!({"case_index": idx, "source": label, "stream": shorts(&recs), "expected": format!("{exp:?}"), "summarize": format!("{got:?}")}));
    for (sig, msg) in v {
        viol(t, "C12", &format!("summary:{sig}"), format!("[{label}] {msg}"), idx, &recs, json!({"attempt_words(step_failed,hook_failed,skipped)": word}));
    }
}

// ---------------------------------------------------------------------------
// C13

fn inherits(rec_tags: &[Vec<String>], tag: &str) -> bool {
    rec_tags.iter().any(|t| t.iter().any(|x| x == tag))
}

/// Tags of (feature, rule, scenario) of an item.
fn tags_of(item: &Item) -> Option<[Vec<String>; 3]> {
    use cucumber::event::{Cucumber, Feature, Rule};
    let Ok(ev) = item else { return None };
    match &ev.value {
        Cucumber::Feature(f, Feature::Scenario(s, _)) => Some([f.tags.clone(), Vec::new(), s.tags.clone()]),
        Cucumber::Feature(f, Feature::Rule(r, Rule::Scenario(s, _))) => Some([f.tags.clone(), r.tags.clone(), s.tags.clone()]),
        _ => None,
    }
}

/// Like `feed_rec`, but from input `at` on the stream goes to a clone of the writer (the original is
/// dropped): a clone taken mid-run is the same writer in the same state.
fn feed_rec_cloning<Wr: Writer<TW> + Clone>(w: &mut Wr, items: &[Item], cli: &Wr::Cli, shs: &[&Shared], at: Option<usize>) {
    block_on(async {
        for (i, it) in items.iter().enumerate() {
            if at == Some(i) {
                let copy = w.clone();
                drop(std::mem::replace(w, copy));
            }
            for sh in shs {
                sh.call.set(i);
            }
            w.handle_event(it.clone(), cli).await;
        }
    });
}

fn feed_rec<Wr: Writer<TW>>(w: &mut Wr, items: &[Item], cli: &Wr::Cli, shs: &[&Shared]) {
    block_on(async {
        for (i, it) in items.iter().enumerate() {
            for sh in shs {
                sh.call.set(i);
            }
            w.handle_event(it.clone(), cli).await;
        }
    });
}

pub fn c13(items: &[Item], t: &mut Tally, idx: u64, rng: &mut Rng) {
    let input = fps(items);
    let mut v: Vec<(String, String)> = Vec::new();
    let is_skipped = |r: &Rec| matches!(r.is_sc(), Some(ScEv::Step { ev: StepEv::Skipped, .. }));
    let is_failedish = |r: &Rec| {
        matches!(r.ev, Ev::ParseErr(_))
            || matches!(r.is_sc(), Some(ScEv::Step { ev: StepEv::Failed { .. }, .. } | ScEv::Hook { ev: HookEv::Failed { .. }, .. }))
    };
    let mut relevant = 0;

    // ---- FailOnSkipped (default predicate and a custom one) ----
    for custom in [false, true] {
        let (rec, sh) = RecW::new();
        let out: Vec<Rec> = if custom {
            let mut w = rec.fail_on_skipped_with(|_f, _r, s: &cucumber::gherkin::Scenario| s.name.len() % 2 == 0);
            feed_rec(&mut w, items, &cli::Empty, &[&sh]);
            sh.events().into_iter().map(|e| e.1).collect()
        } else {
            let mut w = rec.fail_on_skipped();
            feed_rec(&mut w, items, &cli::Empty, &[&sh]);
            sh.events().into_iter().map(|e| e.1).collect()
        };
        if out.len() != input.len() {
            v.push(("fail-on-skipped:count".into(), format!("{} events in, {} out", input.len(), out.len())));
        } else {
            for (i, (a, b)) in input.iter().zip(&out).enumerate() {
                let selected = is_skipped(a)
                    && if custom {
                        match &items[i] {
                            Ok(ev) => match &ev.value {
                                cucumber::event::Cucumber::Feature(_, cucumber::event::Feature::Scenario(s, _)) => s.name.len() % 2 == 0,
                                cucumber::event::Cucumber::Feature(_, cucumber::event::Feature::Rule(_, cucumber::event::Rule::Scenario(s, _))) => s.name.len() % 2 == 0,
                                _ => false,
                            },
                            Err(_) => false,
                        }
                    } else {
                        !inherits(&tags_of(&items[i]).unwrap(), "allow.skipped")
                    };
                if selected {
                    relevant += 1;
                    let ok = match (a.is_sc(), b.is_sc()) {
                        (
                            Some(ScEv::Step { bg, text, ptr, kw, line, .. }),
                            Some(ScEv::Step { bg: b2, text: t2, ptr: p2, kw: k2, line: l2, ev: StepEv::Failed { err: StepErr::NotFound, world: None, captures: false, loc: false } }),
                        ) => bg == b2 && text == t2 && ptr == p2 && kw == k2 && line == l2,
                        _ => false,
                    } && a.f == b.f && a.r == b.r && a.s == b.s && a.retries == b.retries && a.at == b.at;
                    if !ok {
                        v.push(("fail-on-skipped:not-mapped".into(), format!("(custom={custom}) {} became {}", a.short(), b.short())));
                    }
                } else if !same_event(a, b) {
                    v.push(("fail-on-skipped:altered".into(), format!("(custom={custom}) {} became {}", a.short(), b.short())));
                }
            }
        }
    }

    // ---- Repeat (skipped / failed / custom) ----
    // every 4th case the same writer sees a second run (the stream twice over): the writer that
    // `run()` returns may be handed to the next run, and each run's matches are re-emitted once
    let second_run = idx % 4 == 2;
    let twice: Vec<Item> = if second_run { items.iter().chain(items).cloned().collect() } else { Vec::new() };
    let outer_items = items;
    {
    let items: &[Item] = if second_run { &twice } else { outer_items };
    let input: Vec<Rec> = fps(items);
    if second_run {
        t.count("c13.repeat_writers_fed_a_second_run", 1);
    }
    let fin = input.iter().position(|r| r.ev == Ev::Finished);
    // every other case continues on a clone taken somewhere in the middle
    let clone_at = (idx % 2 == 1 && items.len() > 2).then(|| 1 + rng.below(items.len() - 1));
    for mode in 0..5 {
        let (rec, sh) = RecW::new();
        let out: Vec<Rec> = match mode {
            0 => {
                let mut w = rec.repeat_skipped::<TW>();
                feed_rec_cloning(&mut w, items, &cli::Empty, &[&sh], clone_at);
                sh.events().into_iter().map(|e| e.1).collect()
            }
            1 => {
                let mut w = rec.repeat_failed::<TW>();
                feed_rec_cloning(&mut w, items, &cli::Empty, &[&sh], clone_at);
                sh.events().into_iter().map(|e| e.1).collect()
            }
            2 => {
                let mut w = rec.repeat_if(|ev: &Item| matches!(ev, Ok(e) if matches!(e.value, cucumber::event::Cucumber::Feature(..)) && token_of(ev).is_some_and(|t| t % 3 == 0)));
                feed_rec_cloning(&mut w, items, &cli::Empty, &[&sh], clone_at);
                sh.events().into_iter().map(|e| e.1).collect()
            }
            // custom filters that select run-level events too, run-Finished itself included
            3 => {
                let mut w = rec.repeat_if(|ev: &Item| matches!(ev, Ok(e) if matches!(e.value, cucumber::event::Cucumber::Finished)));
                feed_rec_cloning(&mut w, items, &cli::Empty, &[&sh], clone_at);
                sh.events().into_iter().map(|e| e.1).collect()
            }
            _ => {
                let mut w = rec.repeat_if(|_: &Item| true);
                feed_rec_cloning(&mut w, items, &cli::Empty, &[&sh], clone_at);
                sh.events().into_iter().map(|e| e.1).collect()
            }
        };
        let name = ["repeat_skipped", "repeat_failed", "repeat_if", "repeat_if", "repeat_if"][mode];
        let pred = |i: usize, r: &Rec| match mode {
            0 => is_skipped(r),
            1 => is_failedish(r),
            2 => r.f.is_some() && token_of(&items[i]).is_some_and(|t| t % 3 == 0),
            3 => r.ev == Ev::Finished,
            _ => true,
        };
        // expected: input, and right after (each) run-Finished the matches seen so far, once
        let mut expect: Vec<usize> = Vec::new();
        let mut pending: Vec<usize> = Vec::new();
        for (i, r) in input.iter().enumerate() {
            if pred(i, r) {
                pending.push(i);
            }
            expect.push(i);
            if r.ev == Ev::Finished {
                expect.append(&mut pending);
            }
        }
        relevant += expect.len() - input.len();
        if out.len() != expect.len() || out.iter().zip(&expect).any(|(o, j)| !same_event(o, &input[*j])) {
            v.push((format!("{name}:sequence"), format!("inner writer got {} events, expected {} (input {} + repeats after run-Finished at {fin:?})", out.len(), expect.len(), input.len())));
        }
    }

    }
    let fin = input.iter().position(|r| r.ev == Ev::Finished);

    // ---- Tee ----
    {
        let (l, shl) = RecW::with_stats([3, 1, 4, 1, 5, 9]);
        let (r, shr) = RecW::with_stats([2, 7, 1, 8, 2, 8]);
        let mut w = writer::Tee::new(l, r);
        let tcli = cli::Compose { left: cli::Empty, right: cli::Empty };
        block_on(async {
            for (i, it) in items.iter().enumerate() {
                shl.call.set(i);
                shr.call.set(i);
                w.handle_event(it.clone(), &tcli).await;
                if i % 5 == 0 {
                    writer::Arbitrary::<TW, String>::write(&mut w, format!("arbitrary {i}")).await;
                }
            }
        });
        for (side, sh) in [("left", &shl), ("right", &shr)] {
            let log = sh.log.borrow();
            let mut k = 0;
            let mut ok = true;
            for (i, r) in input.iter().enumerate() {
                ok &= matches!(log.get(k), Some(Got::Event { fp, .. }) if same_event(fp, r));
                k += 1;
                if i % 5 == 0 {
                    ok &= matches!(log.get(k), Some(Got::Write { val, .. }) if *val == format!("arbitrary {i}"));
                    k += 1;
                }
            }
            if !ok || k != log.len() {
                v.push(("tee:delivery".into(), format!("{side} writer did not receive exactly the events and arbitrary writes given to Tee")));
            }
        }
        let got = [
            Stats::<TW>::passed_steps(&w),
            Stats::<TW>::skipped_steps(&w),
            Stats::<TW>::failed_steps(&w),
            Stats::<TW>::retried_steps(&w),
            Stats::<TW>::parsing_errors(&w),
            Stats::<TW>::hook_errors(&w),
        ];
        if got != [3, 7, 4, 8, 5, 9] {
            v.push(("tee:stats".into(), format!("Tee stats {got:?}, maximum of the inner ones is [3, 7, 4, 8, 5, 9]")));
        }
        // the verdict is a statistic too: sides with their own notion of failure (hook errors of
        // retried attempts do not fail a `Summarize`) combine as the maximum, i.e. either side
        for (lv, rv) in [(false, false), (true, false), (false, true), (true, true)] {
            let (mut l, _) = RecW::with_stats([3, 0, 0, 1, 0, 2]);
            let (mut r, _) = RecW::with_stats([3, 0, 0, 1, 0, 1]);
            l.verdict = Some(lv);
            r.verdict = Some(rv);
            let w = writer::Tee::new(l, r);
            if Stats::<TW>::execution_has_failed(&w) != (lv || rv) {
                v.push(("tee:stats".into(), format!("Tee::execution_has_failed() = {} over sides reporting {lv} and {rv}", !(lv || rv))));
            }
            let (mut l, _) = RecW::with_stats([3, 0, 0, 1, 0, 2]);
            let (mut r, _) = RecW::with_stats([3, 0, 0, 1, 0, 1]);
            l.verdict = Some(lv);
            r.verdict = Some(rv);
            let w = writer::Or::new(l, r, |_: &Item, _: &cli::Compose<cli::Empty, cli::Empty>| true);
            if Stats::<TW>::execution_has_failed(&w) != (lv || rv) {
                v.push(("or:stats".into(), format!("Or::execution_has_failed() = {} over sides reporting {lv} and {rv}", !(lv || rv))));
            }
        }
        relevant += 1;
    }

    // ---- Or ----
    {
        let (l, shl) = RecW::with_stats([3, 1, 4, 1, 5, 9]);
        let (r, shr) = RecW::with_stats([2, 7, 1, 8, 2, 8]);
        let salt = rng.below(5) as u64 + 2;
        let pred = move |ev: &Item, _: &cli::Compose<cli::Empty, cli::Empty>| token_of(ev).is_some_and(|t| t % salt == 0);
        let mut w = writer::Or::new(l, r, pred);
        let tcli = cli::Compose { left: cli::Empty, right: cli::Empty };
        feed_rec(&mut w, items, &tcli, &[&shl, &shr]);
        let le = shl.events();
        let re = shr.events();
        let exp_l: Vec<&Rec> = input.iter().enumerate().filter(|(i, _)| token_of(&items[*i]).is_some_and(|t| t % salt == 0)).map(|(_, r)| r).collect();
        let exp_r: Vec<&Rec> = input.iter().enumerate().filter(|(i, _)| !token_of(&items[*i]).is_some_and(|t| t % salt == 0)).map(|(_, r)| r).collect();
        if le.len() != exp_l.len()
            || re.len() != exp_r.len()
            || le.iter().zip(&exp_l).any(|(a, b)| !same_event(&a.1, b))
            || re.iter().zip(&exp_r).any(|(a, b)| !same_event(&a.1, b))
        {
            v.push(("or:routing".into(), format!("left got {} (expected {}), right got {} (expected {})", le.len(), exp_l.len(), re.len(), exp_r.len())));
        }
        let got = [
            Stats::<TW>::passed_steps(&w),
            Stats::<TW>::skipped_steps(&w),
            Stats::<TW>::failed_steps(&w),
            Stats::<TW>::retried_steps(&w),
            Stats::<TW>::parsing_errors(&w),
            Stats::<TW>::hook_errors(&w),
        ];
        if got != [5, 8, 5, 9, 7, 17] {
            v.push(("or:stats".into(), format!("Or stats {got:?}, sum of the inner ones is [5, 8, 5, 9, 7, 17]")));
        }
        relevant += 1;
    }

    // ---- discard wrappers: events untouched; arbitrary writes dropped / stats zeroed ----
    {
        let (r1, sh1) = RecW::with_stats([3, 1, 4, 1, 5, 9]);
        let mut w = r1.discard_arbitrary_writes();
        block_on(async {
            for (i, it) in items.iter().enumerate() {
                sh1.call.set(i);
                w.handle_event(it.clone(), &cli::Empty).await;
                if i % 4 == 0 {
                    writer::Arbitrary::<TW, String>::write(&mut w, format!("dropped {i}")).await;
                }
            }
        });
        let log = sh1.log.borrow();
        if log.iter().any(|g| matches!(g, Got::Write { .. })) {
            v.push(("discard-arbitrary:write-leaked".into(), "an arbitrary write reached the inner writer".into()));
        }
        let evs: Vec<&Rec> = log.iter().filter_map(|g| match g { Got::Event { fp, .. } => Some(fp), _ => None }).collect();
        if evs.len() != input.len() || evs.iter().zip(&input).any(|(a, b)| !same_event(a, b)) {
            v.push(("discard-arbitrary:events".into(), "events altered on their way through discard::Arbitrary".into()));
        }
        let got = [Stats::<TW>::passed_steps(&w), Stats::<TW>::skipped_steps(&w), Stats::<TW>::failed_steps(&w), Stats::<TW>::retried_steps(&w), Stats::<TW>::parsing_errors(&w), Stats::<TW>::hook_errors(&w)];
        if got != [3, 1, 4, 1, 5, 9] {
            v.push(("discard-arbitrary:stats".into(), format!("stats {got:?} differ from the inner writer's")));
        }
        drop(log);
        let (r2, sh2) = RecW::with_stats([3, 1, 4, 1, 5, 9]);
        let mut w = r2.discard_stats_writes();
        block_on(async {
            for (i, it) in items.iter().enumerate() {
                sh2.call.set(i);
                w.handle_event(it.clone(), &cli::Empty).await;
                if i % 4 == 0 {
                    writer::Arbitrary::<TW, String>::write(&mut w, format!("kept {i}")).await;
                }
            }
        });
        let log = sh2.log.borrow();
        let writes = log.iter().filter(|g| matches!(g, Got::Write { .. })).count();
        let evs: Vec<&Rec> = log.iter().filter_map(|g| match g { Got::Event { fp, .. } => Some(fp), _ => None }).collect();
        if writes != input.len().div_ceil(4) || evs.len() != input.len() || evs.iter().zip(&input).any(|(a, b)| !same_event(a, b)) {
            v.push(("discard-stats:delivery".into(), format!("{} events / {writes} writes reached the inner writer, {} / {} given", evs.len(), input.len(), input.len().div_ceil(4))));
        }
        let got = [Stats::<TW>::passed_steps(&w), Stats::<TW>::skipped_steps(&w), Stats::<TW>::failed_steps(&w), Stats::<TW>::retried_steps(&w), Stats::<TW>::parsing_errors(&w), Stats::<TW>::hook_errors(&w)];
        if got != [0; 6] || Stats::<TW>::execution_has_failed(&w) {
            v.push(("discard-stats:stats".into(), format!("stats {got:?} are not all zero")));
        }
    }

    // ---- a nesting: FailOnSkipped<Repeat<Tee<Rec, Rec>>> ----
    {
        let (l, shl) = RecW::new();
        let (r, shr) = RecW::new();
        let mut w = writer::Tee::new(l, r).repeat_failed::<TW>().fail_on_skipped();
        let tcli = cli::Compose { left: cli::Empty, right: cli::Empty };
        feed_rec(&mut w, items, &tcli, &[&shl, &shr]);
        // expected: skipped (not allowed) mapped, and - as they are Failed now - repeated after run-Finished
        let a = shl.events();
        let b = shr.events();
        if a.len() != b.len() || a.iter().zip(&b).any(|(x, y)| !same_event(&x.1, &y.1)) {
            v.push(("nesting:tee-sides-differ".into(), "the two sides of Tee inside Repeat inside FailOnSkipped saw different streams".into()));
        }
        let mapped = input.iter().enumerate().filter(|(i, r)| is_skipped(r) && !inherits(&tags_of(&items[*i]).unwrap(), "allow.skipped")).count();
        let fin_n = input.iter().filter(|r| r.ev == Ev::Finished).count();
        if fin_n == 1 && fin == Some(input.len() - 1) {
            let failedish = input.iter().filter(|r| is_failedish(r)).count() + mapped;
            if a.len() != input.len() + failedish {
                v.push(("nesting:length".into(), format!("inner writers got {} events, expected {} + {failedish} repeats", a.len(), input.len())));
            }
        }
    }

    t.evaluations += 1;
    if relevant > 2 {
        t.nontrivial_case("C13");
        let shape: String = input.iter().map(|r| if is_skipped(r) { 's' } else if is_failedish(r) { 'f' } else if r.ev == Ev::Finished { 'E' } else { '.' }).collect();
        t.nontrivial("C13", fnv(&shape));
    }
    t.sample("c13", 1, || json!({"case_index": idx, "stream": shorts(&input)}));
    for (sig, msg) in v {
        viol(t, "C13", &format!("combinator:{sig}"), msg, idx, &input, json!(null));
    }
}
