//! Oracles over one real run of `runner::Basic` (event stream + callback log +
//! quiescent-point snapshots). Each is written from the property statement.

use std::collections::{BTreeMap, BTreeSet, HashMap, HashSet};

use serde_json::{Value, json};

use crate::{
    analysis::{Analysis, Attempt},
    evrec::{Ev, HookEv, Rec, ScEv, StepErr, StepEv},
    exec::End,
    report::Tally,
    rng::fnv,
    spec::{Item, StepKind},
    world::{CbKind, CbOutcome},
};

pub struct Ctx<'a, 'b> {
    pub an: &'a Analysis<'b>,
    pub t: &'a mut Tally,
    pub idx: u64,
}

impl Ctx<'_, '_> {
    pub fn viol(&mut self, prop: &str, sig: &str, detail: String, extra: Value) {
        let w = json!({
            "case": self.an.case.describe(),
            "end": format!("{:?}", self.an.out.end),
            "stream": tail(&self.an.out.evs, 120),
            "extra": extra,
        });
        self.t.violation(prop, sig, detail, self.idx, w);
    }
}

fn tail(evs: &[Rec], n: usize) -> Vec<String> {
    let skip = evs.len().saturating_sub(n);
    evs.iter().skip(skip).map(Rec::short).collect()
}

pub fn check_all(an: &Analysis<'_>, t: &mut Tally, idx: u64) {
    let mut cx = Ctx { an, t, idx };
    for (prop, msg) in an.build_issues.clone() {
        cx.viol(prop, "structure", msg, json!(null));
    }
    // A run that did not end (escaped panic, stuck, livelock) is judged by the
    // termination / containment oracles only; sequence oracles need a whole stream.
    if an.out.end != End::Ended {
        c04(&mut cx);
        c10(&mut cx);
        return;
    }
    #[cfg(feature = "writers")]
    c01_guarded(&mut cx);
    c02(&mut cx);
    c03(&mut cx);
    c04(&mut cx);
    c05(&mut cx);
    c06(&mut cx);
    c07(&mut cx);
    c08(&mut cx);
    c09(&mut cx);
    c10(&mut cx);
    c18(&mut cx);
}

#[cfg(feature = "writers")]
fn c01_guarded(cx: &mut Ctx<'_, '_>) {
    // The stats pipelines are real writers fed with what the real runner emitted;
    // a panic inside them must not take the monitor down with it.
    crate::exec::IN_RUN.store(true, std::sync::atomic::Ordering::SeqCst);
    let r = std::panic::catch_unwind(std::panic::AssertUnwindSafe(|| crate::pipelines::check_c01(cx)));
    crate::exec::IN_RUN.store(false, std::sync::atomic::Ordering::SeqCst);
    if let Err(p) = r {
        let msg = format!("{:?}", crate::evrec::payload_of(&std::sync::Arc::from(p)));
        cx.viol("C01", "verdict:pipeline-panicked", format!("a stats pipeline panicked on the stream the runner emitted: {msg}"), json!(null));
    }
}

// ---------------------------------------------------------------------------
// C02 - canonical per-attempt event sequence

fn c02(cx: &mut Ctx<'_, '_>) {
    let an = cx.an;
    let cfg = &an.case.cfg;
    for a in &an.attempts {
        let Some(info) = an.sc.get(&a.sc_uid) else { continue };
        // Log events (tracing integration) are governed by C20, not by this grammar
        let word: Vec<&Rec> = a.evs.iter().map(|&i| an.ev(i)).filter(|r| !matches!(r.is_sc(), Some(ScEv::Log(_)))).collect();
        let sev = |p: usize| word.get(p).and_then(|r| r.is_sc());
        let errs: std::cell::RefCell<Vec<(String, String)>> = std::cell::RefCell::new(Vec::new());
        let fail = |sig: &str, msg: String| errs.borrow_mut().push((sig.to_owned(), msg));
        // ... but they are events of the attempt, and the statement is explicit about the end:
        // "Finished, with no event of that attempt after it". (A line logged outside of any scenario
        // span before the first batch starts is handed to that batch ahead of its Started events;
        // the statement does not speak about Log events there, so that is not judged.)
        if let Some(l) = a.evs.iter().map(|&i| an.ev(i)).find(|r| matches!(r.is_sc(), Some(ScEv::Log(_))) && a.finished.is_some_and(|f| r.idx > f)) {
            fail("log-after-finished", format!("{} comes after the attempt's Finished (#{:?})", l.short(), a.finished));
        }
        let mut p = 0;
        if !matches!(sev(p), Some(ScEv::Started)) {
            fail("no-started-first", format!("first event of the attempt is {:?}", word.first().map(|r| r.short())));
        } else {
            p += 1;
        }
        let mut bh_failed = false;
        if cfg.before_hook {
            if matches!(sev(p), Some(ScEv::Hook { before: true, ev: HookEv::Started })) {
                p += 1;
                match sev(p) {
                    Some(ScEv::Hook { before: true, ev: HookEv::Passed }) => p += 1,
                    Some(ScEv::Hook { before: true, ev: HookEv::Failed { .. } }) => {
                        p += 1;
                        bh_failed = true;
                    }
                    other => fail("before-hook-result", format!("after Hook(Before) Started came {other:?}")),
                }
            } else {
                fail("before-hook-missing", format!("before hook set but event {p} is {:?}", sev(p)));
            }
        }
        let mut executed = 0usize;
        let mut terminal = bh_failed;
        while !terminal {
            let Some(ScEv::Step { bg, text, kw, ptr, ev: StepEv::Started, .. }) = sev(p) else { break };
            let Some((exp, exp_bg)) = info.steps.get(executed) else {
                fail("extra-step", format!("step '{text}' started beyond the scenario's {} steps", info.steps.len()));
                break;
            };
            if exp.text != *text || *exp_bg != *bg || exp.kw != *kw {
                fail(
                    "step-order",
                    format!(
                        "position {executed}: expected {}'{}' kw{} got {}'{text}' kw{kw}",
                        if *exp_bg { "Bg" } else { "Step" },
                        exp.text,
                        exp.kw,
                        if *bg { "Bg" } else { "Step" }
                    ),
                );
                break;
            }
            p += 1;
            match sev(p) {
                Some(ScEv::Step { bg: b2, ptr: p2, ev, .. }) if p2 == ptr && b2 == bg => {
                    let ok = match (exp.kind, ev) {
                        (StepKind::Run, StepEv::Passed) => true,
                        (StepKind::Run, StepEv::Failed { err: StepErr::Panic(_), .. }) => true,
                        (StepKind::NoMatch, StepEv::Skipped) => true,
                        (StepKind::Ambiguous, StepEv::Failed { err: StepErr::Ambiguous(l), .. }) => l.len() == 2,
                        _ => false,
                    };
                    if !ok {
                        fail("step-result-kind", format!("step '{text}' ({:?}) resulted in {ev:?}", exp.kind));
                    }
                    if !matches!(ev, StepEv::Passed) {
                        terminal = true;
                    }
                    if matches!(ev, StepEv::Started) {
                        fail("step-double-start", format!("step '{text}' Started twice"));
                    }
                    p += 1;
                    executed += 1;
                }
                other => {
                    fail("step-result-missing", format!("step '{text}' Started followed by {other:?}"));
                    break;
                }
            }
        }
        if !terminal && errs.borrow().is_empty() && executed != info.steps.len() {
            fail(
                "steps-truncated",
                format!("only {executed} of {} steps ran although none failed or was skipped", info.steps.len()),
            );
        }
        if cfg.after_hook {
            if matches!(sev(p), Some(ScEv::Hook { before: false, ev: HookEv::Started })) {
                p += 1;
                match sev(p) {
                    Some(ScEv::Hook { before: false, ev: HookEv::Passed | HookEv::Failed { .. } }) => p += 1,
                    other => fail("after-hook-result", format!("after Hook(After) Started came {other:?}")),
                }
            } else {
                fail("after-hook-missing", format!("after hook set but event {p} is {:?}", sev(p).map(|e| format!("{e:?}"))));
            }
        }
        if a.finished.is_some() || an.out.end == End::Ended {
            if !matches!(sev(p), Some(ScEv::Finished)) {
                fail("no-finished", format!("expected Finished at position {p}, got {:?}", sev(p)));
            } else {
                p += 1;
                if p != word.len() {
                    fail("event-after-finished", format!("{} event(s) after Finished", word.len() - p));
                }
            }
        }
        if !cfg.before_hook
            && word.iter().any(|r| matches!(r.is_sc(), Some(ScEv::Hook { before: true, .. })))
        {
            fail("unexpected-before-hook", "before-hook events without a before hook".into());
        }
        if !cfg.after_hook
            && word.iter().any(|r| matches!(r.is_sc(), Some(ScEv::Hook { before: false, .. })))
        {
            fail("unexpected-after-hook", "after-hook events without an after hook".into());
        }

        // payloads of failed steps / hooks name what was thrown
        for r in &word {
            let (payload, world, text, is_hook_before) = match r.is_sc() {
                Some(ScEv::Step { text, ev: StepEv::Failed { err: StepErr::Panic(p), world, .. }, .. }) => {
                    (p, *world, Some(text.clone()), None)
                }
                Some(ScEv::Hook { before, ev: HookEv::Failed { payload, world } }) => {
                    (payload, *world, None, Some(*before))
                }
                _ => continue,
            };
            let ok = match (world, &text, is_hook_before) {
                (Some(w), Some(text), _) => an.out.cbs.iter().any(|cb| {
                    cb.kind == CbKind::Step
                        && cb.world == Some(w)
                        && cb.text == *text
                        && Analysis::payload_matches(payload, &cb.outcome)
                }),
                (Some(w), None, Some(before)) => an.out.cbs.iter().any(|cb| {
                    cb.kind == if before { CbKind::Before } else { CbKind::After }
                        && cb.world == Some(w)
                        && Analysis::payload_matches(payload, &cb.outcome)
                }),
                (None, _, Some(false)) => an.out.cbs.iter().any(|cb| {
                    cb.kind == CbKind::After
                        && cb.world.is_none()
                        && cb.sc_uid == Some(a.sc_uid)
                        && Analysis::payload_matches(payload, &cb.outcome)
                }),
                // World could not be created: payload carries the error text / thrown value
                (None, _, _) => a.failed_world_new.is_some_and(|cb| match &an.cb(cb).outcome {
                    CbOutcome::Err(t) => matches!(payload, crate::evrec::Payload::Str(s) if s.contains(&format!("world-err#{t}#"))),
                    o => Analysis::payload_matches(payload, o),
                }),
                _ => false,
            };
            if !ok {
                fail("payload", format!("failure payload does not match what was thrown: {}", r.short()));
            }
        }

        // non-triviality: >=2 steps or hook or failure, and a foreign event interleaved
        let lo = a.evs[0];
        let hi = *a.evs.last().unwrap();
        let foreign = (lo..=hi).any(|i| an.ev(i).s.is_some_and(|s| s.ptr != a.s_ptr));
        let interesting = info.steps.len() >= 2 || cfg.before_hook || cfg.after_hook || a.failed();
        if interesting && foreign {
            let fail_pos = word
                .iter()
                .position(|r| matches!(r.is_sc(), Some(ScEv::Step { ev: StepEv::Failed { .. } | StepEv::Skipped, .. })));
            let sig = format!(
                "{}|{}|{:?}|{}{}|{:?}|{}",
                info.f.bg.len(),
                info.r.map_or(0, |r| r.bg.len()),
                fail_pos,
                cfg.before_hook,
                cfg.after_hook,
                a.retries.map(|r| r.0),
                a.hook_failed
            );
            cx.t.nontrivial("C02", fnv(&sig));
        }
        cx.t.count("attempts", 1);
        if let Some((sig, msg)) = errs.into_inner().into_iter().next() {
            let words = an.attempt_words(a);
            cx.viol("C02", &format!("grammar:{sig}"), msg, json!({"attempt": words}));
        }
    }
    // every scenario event must belong to an attempt with a Started
    for a in &an.attempts {
        if a.started.is_none() {
            let words = an.attempt_words(a);
            cx.viol(
                "C02",
                "grammar:retries-mismatch",
                format!("events of s{} with retries {:?} have no Started carrying the same counter", a.sc_uid, a.retries),
                json!({"attempt": words}),
            );
        }
    }
}

// ---------------------------------------------------------------------------
// C03 - framing

fn c03(cx: &mut Ctx<'_, '_>) {
    let an = cx.an;
    let evs = &an.out.evs;
    let ended = an.out.end == End::Ended;
    let mut v: Vec<(String, String)> = Vec::new();

    let started: Vec<usize> = evs.iter().filter(|r| r.ev == Ev::Started).map(|r| r.idx).collect();
    let first_feature = evs.iter().find(|r| r.f.is_some()).map(|r| r.idx);
    if started.len() != 1 {
        v.push(("run-started-count".into(), format!("{} run-Started events", started.len())));
    } else if first_feature.is_some_and(|f| f < started[0]) {
        v.push(("run-started-late".into(), "a feature event precedes run-Started".into()));
    }
    if ended {
        let finished: Vec<usize> = evs.iter().filter(|r| r.ev == Ev::Finished).map(|r| r.idx).collect();
        if finished.len() != 1 || finished[0] != evs.len() - 1 {
            v.push(("run-finished".into(), format!("run-Finished at {finished:?}, stream length {}", evs.len())));
        }
        if an.out.items_after_end > 0 {
            v.push(("item-after-end".into(), format!("{} items after the stream ended", an.out.items_after_end)));
        }
    }

    // parser errors: exactly the pulled ones, in order
    let pulled_errs: Vec<String> = an
        .pulled_items
        .iter()
        .filter_map(|&i| match &an.case.items[i] {
            Item::ErrParse(n) => Some(format!("broken{n}.feature")),
            Item::ErrExpand(n) => Some(format!("xerr#{n}#")),
            Item::Feat(_) => None,
        })
        .collect();
    let seen_errs: Vec<&String> = evs.iter().filter_map(|r| match &r.ev { Ev::ParseErr(s) => Some(s), _ => None }).collect();
    if ended
        && (seen_errs.len() != pulled_errs.len()
            || !seen_errs.iter().zip(&pulled_errs).all(|(s, p)| s.contains(p.as_str())))
    {
        v.push(("parser-errors".into(), format!("stream has errors {seen_errs:?}, parser yielded {pulled_errs:?}")));
    }
    let pf: Vec<&Rec> = evs.iter().filter(|r| matches!(r.ev, Ev::ParsingFinished { .. })).collect();
    if ended {
        if pf.len() != 1 {
            v.push(("parsing-finished-count".into(), format!("{} ParsingFinished events", pf.len())));
        } else {
            let last_err = evs.iter().filter(|r| matches!(r.ev, Ev::ParseErr(_))).map(|r| r.idx).max();
            if last_err.is_some_and(|e| e > pf[0].idx) {
                v.push(("parsing-finished-early".into(), "a parser error follows ParsingFinished".into()));
            }
            let feats: Vec<_> = an
                .pulled_items
                .iter()
                .filter_map(|&i| match &an.case.items[i] { Item::Feat(f) => Some(f), _ => None })
                .collect();
            let exp = Ev::ParsingFinished {
                features: feats.len(),
                rules: feats.iter().map(|f| f.rules.len()).sum(),
                scenarios: feats
                    .iter()
                    .map(|f| f.scenarios.len() + f.rules.iter().map(|r| r.scenarios.len()).sum::<usize>())
                    .sum(),
                steps: feats
                    .iter()
                    .map(|f| {
                        f.scenarios.iter().map(|s| s.steps.len()).sum::<usize>()
                            + f.rules.iter().flat_map(|r| &r.scenarios).map(|s| s.steps.len()).sum::<usize>()
                    })
                    .sum(),
                parser_errors: pulled_errs.len(),
            };
            if pf[0].ev != exp {
                v.push(("parsing-finished-counts".into(), format!("got {:?}, parser handed over {exp:?}", pf[0].ev)));
            }
        }
    }

    // identity: one Source per feature / rule / scenario
    let mut f_ptrs: BTreeMap<u32, BTreeSet<usize>> = BTreeMap::new();
    let mut r_ptrs: BTreeMap<u32, BTreeSet<usize>> = BTreeMap::new();
    let mut s_ptrs: BTreeMap<u32, BTreeSet<usize>> = BTreeMap::new();
    for r in evs {
        if let Some(f) = r.f {
            f_ptrs.entry(f.uid).or_default().insert(f.ptr);
        }
        if let Some(x) = r.r {
            r_ptrs.entry(x.uid).or_default().insert(x.ptr);
        }
        if let Some(s) = r.s {
            s_ptrs.entry(s.uid).or_default().insert(s.ptr);
        }
    }
    for (what, m) in [("feature", &f_ptrs), ("rule", &r_ptrs), ("scenario", &s_ptrs)] {
        for (uid, ptrs) in m {
            if ptrs.len() != 1 {
                v.push(("source-identity".into(), format!("{what} {uid} appears under {} different Sources", ptrs.len())));
            }
        }
    }

    // brackets
    #[derive(Default)]
    struct Br {
        started: Vec<usize>,
        finished: Vec<usize>,
        content: Vec<usize>,
        sc_started: usize,
    }
    let mut fb: BTreeMap<usize, Br> = BTreeMap::new();
    let mut rb: BTreeMap<(usize, usize), Br> = BTreeMap::new();
    for r in evs {
        let Some(f) = r.f else { continue };
        let b = fb.entry(f.ptr).or_default();
        match r.ev {
            Ev::FeatStarted => b.started.push(r.idx),
            Ev::FeatFinished => b.finished.push(r.idx),
            _ => {
                b.content.push(r.idx);
                if matches!(r.ev, Ev::Sc(ScEv::Started)) {
                    b.sc_started += 1;
                }
            }
        }
        if let Some(x) = r.r {
            let b = rb.entry((f.ptr, x.ptr)).or_default();
            match r.ev {
                Ev::RuleStarted => b.started.push(r.idx),
                Ev::RuleFinished => b.finished.push(r.idx),
                _ => {
                    b.content.push(r.idx);
                    if matches!(r.ev, Ev::Sc(ScEv::Started)) {
                        b.sc_started += 1;
                    }
                }
            }
        }
    }
    let check_bracket = |what: &str, b: &Br, v: &mut Vec<(String, String)>| {
        if b.sc_started == 0 {
            if !b.started.is_empty() || !b.finished.is_empty() {
                v.push((format!("{what}-bracket-empty"), format!("{what} bracket {:?}/{:?} without any started scenario", b.started, b.finished)));
            }
            return;
        }
        if b.started.len() != 1 || b.started[0] > *b.content.first().unwrap() {
            v.push((format!("{what}-started"), format!("{what} Started at {:?}, first content at {}", b.started, b.content[0])));
        }
        if ended && (b.finished.len() != 1 || b.finished[0] < *b.content.last().unwrap()) {
            v.push((format!("{what}-finished"), format!("{what} Finished at {:?}, last content at {}", b.finished, b.content.last().unwrap())));
        }
        if !ended && b.finished.len() > 1 {
            v.push((format!("{what}-finished"), format!("{what} Finished {} times", b.finished.len())));
        }
    };
    for b in fb.values() {
        check_bracket("feature", b, &mut v);
    }
    for ((fp, _), b) in &rb {
        check_bracket("rule", b, &mut v);
        // rule bracket inside its feature's bracket
        if let (Some(f), Some(rs), Some(rf)) = (fb.get(fp), b.started.first(), b.finished.first()) {
            if f.started.first().is_some_and(|fs| fs > rs) || f.finished.first().is_some_and(|ff| ff < rf) {
                v.push(("rule-outside-feature".into(), format!("rule bracket [{rs},{rf}] not inside feature bracket {:?}..{:?}", f.started, f.finished)));
            }
        }
    }

    // non-trivial: overlapping feature brackets, a rule, a retry or a fail-fast trip
    let spans: Vec<(usize, usize)> = fb
        .values()
        .filter_map(|b| Some((*b.started.first()?, *b.finished.first()?)))
        .collect();
    let overlap = spans.iter().enumerate().any(|(i, a)| spans.iter().skip(i + 1).any(|b| a.0 < b.1 && b.0 < a.1));
    let retry = an.attempts.iter().any(|a| a.retries.is_some_and(|r| r.0 > 0));
    let trip = an.case.cfg.fail_fast() && an.first_final_failure.is_some();
    if overlap || !rb.is_empty() && fb.len() >= 1 && (retry || trip || fb.len() >= 2) || (fb.len() >= 2 && (retry || trip)) {
        let sig = format!(
            "{}|{}|{overlap}|{retry}|{trip}|{}|{:?}",
            fb.len(),
            rb.len(),
            an.case.is_lazy(),
            an.case.cfg.limit()
        );
        cx.t.nontrivial("C03", fnv(&sig) ^ an.out.sched_hash);
    }
    for (sig, msg) in v {
        cx.viol("C03", &format!("framing:{sig}"), msg, json!(null));
    }
}

// ---------------------------------------------------------------------------
// C04 - every supplied scenario runs, nothing else, and the run terminates

fn c04(cx: &mut Ctx<'_, '_>) {
    let an = cx.an;
    let out = an.out;
    match &out.end {
        End::Ended => {}
        End::Stuck { waited_ms, rescued_by_spurious_poll } => {
            cx.viol(
                "C04",
                if *rescued_by_spurious_poll { "termination:lost-wakeup" } else { "termination:stuck" },
                format!("stream Pending with nothing left to wake it (waited {waited_ms} ms; spurious poll made progress: {rescued_by_spurious_poll})"),
                json!({"qpoints": out.qpoints.iter().rev().take(5).map(|q| format!("{q:?}")).collect::<Vec<_>>()}),
            );
            return;
        }
        End::Livelock { polls } => {
            cx.viol(
                "C04",
                "termination:livelock",
                format!("{polls} consecutive self-woken polls without an event, a callback step or a parser pull"),
                json!(null),
            );
            return;
        }
        End::PanicEscaped(p) => {
            cx.viol(
                "C04",
                "termination:panic-escaped",
                format!("the event stream did not end: a panic came out of it ({p}); scenarios still queued are never attempted"),
                json!(null),
            );
            return;
        }
        End::Aborted(_) => return,
    }
    let ff_tripped = an.case.cfg.fail_fast()
        && (an.first_final_failure.is_some() || out.evs.iter().any(|r| matches!(r.ev, Ev::ParseErr(_))));
    let supplied: BTreeSet<u32> = an
        .pulled_items
        .iter()
        .filter_map(|&i| match &an.case.items[i] { Item::Feat(f) => Some(f), _ => None })
        .flat_map(|f| f.scenarios.iter().chain(f.rules.iter().flat_map(|r| &r.scenarios)).map(|s| s.uid))
        .collect();
    let started: BTreeSet<u32> = an.attempts.iter().filter(|a| a.started.is_some()).map(|a| a.sc_uid).collect();
    let extra: Vec<_> = started.difference(&supplied).collect();
    if !extra.is_empty() {
        cx.viol("C04", "set:not-supplied", format!("scenarios {extra:?} ran but were not handed to the runner"), json!(null));
    }
    if !ff_tripped {
        let missing: Vec<_> = supplied.difference(&started).collect();
        if !missing.is_empty() {
            cx.viol("C04", "set:missing", format!("scenarios {missing:?} were handed to the runner but never started"), json!(null));
        }
        if an.pulled_items.len() != an.case.items.len() {
            cx.viol(
                "C04",
                "set:parser-not-drained",
                format!("parser stream yielded {} of {} items", an.pulled_items.len(), an.case.items.len()),
                json!(null),
            );
        }
    }
    // placement: each attempt under the feature / rule it was supplied in
    for a in &an.attempts {
        if let Some(info) = an.sc.get(&a.sc_uid) {
            if a.f.uid != info.f.uid || a.r.map(|r| r.uid) != info.r.map(|r| r.uid) {
                cx.viol(
                    "C04",
                    "set:misplaced",
                    format!("s{} ran under f{}/{:?}, supplied under f{}/{:?}", a.sc_uid, a.f.uid, a.r.map(|r| r.uid), info.f.uid, info.r.map(|r| r.uid)),
                    json!(null),
                );
            }
        }
    }
    // bounded progress after the last user future / parser item completed
    let last_user = out
        .cbs
        .iter()
        .filter_map(|c| c.exit_poll)
        .chain(out.pulls.iter().map(|p| p.poll))
        .max()
        .unwrap_or(0);
    let tail_polls = out.polls.saturating_sub(last_user);
    let bound = 64 + 16 * out.evs.len() as u64;
    cx.t.count("c04.max_tail_polls", 0);
    let e = cx.t.counters.entry("c04.max_tail_polls".into()).or_insert(0);
    *e = (*e).max(tail_polls);
    if tail_polls > bound {
        cx.viol(
            "C04",
            "termination:slow-tail",
            format!("{tail_polls} polls after the last user future / parser item completed (bound {bound})"),
            json!(null),
        );
    }
    // non-trivial: the runner was idle while the parser or a retry delay was pending
    let idle_points = out
        .qpoints
        .iter()
        .filter(|q| q.blocked.is_empty() && (q.parser_waiting || q.decision.contains("park")))
        .count();
    let self_pend = out.pulls.iter().filter(|p| p.what == "pending-self").count();
    if idle_points > 0 || self_pend > 0 {
        cx.t.nontrivial_case("C04");
        let sig = format!(
            "{idle_points}|{self_pend}|{:?}|{}|{}",
            an.case.cfg.limit(),
            an.case.items.len(),
            out.pulls.iter().map(|p| &p.what[..p.what.len().min(9)]).collect::<Vec<_>>().join(",")
        );
        cx.t.nontrivial("C04", fnv(&sig));
        cx.t.count("c04.idle_points", idle_points as u64);
    }
}

// ---------------------------------------------------------------------------
// C05 - retries

fn c05(cx: &mut Ctx<'_, '_>) {
    let an = cx.an;
    let ended = an.out.end == End::Ended;
    let ff_tripped = an.case.cfg.fail_fast()
        && (an.first_final_failure.is_some() || an.out.evs.iter().any(|r| matches!(r.ev, Ev::ParseErr(_))));
    for (uid, ais) in &an.by_sc {
        let Some(info) = an.sc.get(uid) else { continue };
        let atts: Vec<&Attempt> = ais.iter().map(|i| &an.attempts[*i]).collect();
        let mut v: Vec<(String, String)> = Vec::new();
        let n = info.retry.map(|r| r.0);
        if info.retry_start > 0 && !atts.is_empty() {
            cx.t.count("c05.scenarios_resumed_with_nonzero_retry_counter", 1);
        }
        for (k, a) in atts.iter().enumerate() {
            let exp = n.map(|n| (info.retry_start + k, n.wrapping_sub(k)));
            if a.retries != exp || n.is_some_and(|n| k > n) {
                v.push(("counter".into(), format!("attempt {k} carries retries {:?}, expected {exp:?} (budget {n:?})", a.retries)));
            }
            if k > 0 {
                let prev = atts[k - 1];
                if !prev.failed() {
                    v.push(("retry-without-failure".into(), format!("attempt {k} exists although attempt {} did not fail", k - 1)));
                }
                match (prev.finished, a.started) {
                    (Some(pf), Some(st)) if pf < st => {}
                    other => v.push(("overlap".into(), format!("attempt {k} started at {:?} but attempt {} finished at {:?}", other.1, k - 1, other.0))),
                }
            }
        }
        if let Some(last) = atts.last() {
            if ended && !ff_tripped && last.failed() && last.retries.is_some_and(|r| r.1 > 0) {
                v.push(("missing-retry".into(), format!("attempt {} failed with {:?} retries left but no further attempt ran", atts.len() - 1, last.retries.map(|r| r.1))));
            }
        }
        if n.is_some_and(|n| atts.len() > n + 1) || n.is_none() && atts.len() > 1 {
            v.push(("too-many-attempts".into(), format!("{} attempts with budget {n:?}", atts.len())));
        }
        // delay: lower bound between the last callback of k and the first of k+1
        if let Some((_, Some(us))) = info.retry {
            for w in atts.windows(2) {
                let (Some(g0), Some(g1)) = (w[0].group, w[1].group) else { continue };
                if an.groups[g0].sc_uid.is_none() || an.groups[g1].sc_uid.is_none() {
                    continue; // attribution of identity-less groups is by order only
                }
                let last_exit = an.groups[g0].cbs.iter().filter_map(|c| an.cb(*c).exit_t).max();
                let first_enter = an.groups[g1].cbs.iter().map(|c| an.cb(*c).enter_t).min();
                if let (Some(a), Some(b)) = (last_exit, first_enter) {
                    let gap = b.saturating_duration_since(a);
                    cx.t.count("c05.delays_measured", 1);
                    if gap.as_micros() < u128::from(us) {
                        v.push(("delay".into(), format!("retry began {:?} after the failed attempt's last callback, configured delay {us}us", gap)));
                    }
                }
            }
        }
        // ... and, read off the events' own timestamps: the next attempt's Started is stamped no
        // earlier than the delay after the failed attempt's Finished (the delay runs from the END of
        // the attempt, which a lingering scenario span may postpone)
        #[cfg(feature = "writers")]
        if let Some((_, Some(us))) = info.retry {
            for w in atts.windows(2) {
                let (Some(fi), Some(st)) = (w[0].finished, w[1].started) else { continue };
                let (t0, t1) = (an.ev(fi).at, an.ev(st).at);
                if let Ok(gap) = t1.duration_since(t0) {
                    cx.t.count("c05.delays_measured_on_event_timestamps", 1);
                    if gap.as_micros() + 100 < u128::from(us) {
                        v.push(("delay-since-finished".into(), format!("the retry's Started is stamped {gap:?} after the failed attempt's Finished, configured delay {us}us")));
                    }
                }
            }
        }
        if atts.len() > 1 {
            let site = |a: &Attempt| {
                a.evs
                    .iter()
                    .find_map(|&i| match an.ev(i).is_sc()? {
                        ScEv::Hook { before, ev: HookEv::Failed { world, .. } } => {
                            Some(format!("H{}{}", u8::from(*before), u8::from(world.is_some())))
                        }
                        ScEv::Step { bg, ev: StepEv::Failed { world, .. }, .. } => {
                            Some(format!("S{}{}", u8::from(*bg), u8::from(world.is_some())))
                        }
                        _ => None,
                    })
                    .unwrap_or_else(|| if a.skipped { "skip".into() } else { "pass".into() })
            };
            let sig = format!(
                "{}|{:?}|{}|{:?}",
                atts.iter().map(|a| site(a)).collect::<Vec<_>>().join(">"),
                info.retry,
                info.serial,
                an.case.cfg.limit()
            );
            cx.t.nontrivial("C05", fnv(&sig));
            cx.t.nontrivial_case("C05");
        }
        for (sig, msg) in v {
            let words: Vec<_> = atts.iter().flat_map(|a| an.attempt_words(a)).collect();
            cx.viol("C05", &format!("retry:{sig}"), format!("s{uid}: {msg}"), json!({"attempts": words, "expected_retry": format!("{:?}", info.retry)}));
        }
    }
    // while a delayed retry is pending other scenarios keep running: the runner
    // must never sit idle (nothing in flight, waiting for a timer) while
    // scenarios it already received have not been started.
    if !ff_tripped {
        for q in an.out.qpoints.iter().filter(|q| q.decision.contains("park") && q.blocked.is_empty()) {
            let evs = &an.out.evs[..q.n_events];
            let started: HashSet<u32> = evs.iter().filter(|r| matches!(r.ev, Ev::Sc(ScEv::Started))).filter_map(|r| r.s.map(|s| s.uid)).collect();
            let in_flight = in_flight_series(evs).last().copied().unwrap_or(0);
            let last_finish_q = evs.iter().filter(|r| matches!(r.ev, Ev::Sc(ScEv::Finished))).map(|r| r.q).max();
            let waiting: Vec<u32> = an
                .sc
                .iter()
                .filter(|(uid, info)| {
                    !started.contains(uid)
                        && an.out.pulls.iter().any(|p| {
                            // in the store when the runner last looked for work
                            // (after the last completion); a feature arriving
                            // while it already sleeps is picked up at wake-up
                            p.what == format!("item:{}", info.item)
                                && match last_finish_q {
                                    Some(h) => p.q < h,
                                    None => !an.case.is_lazy(),
                                }
                        })
                })
                .map(|(uid, _)| *uid)
                .collect();
            cx.t.count("c05.idle_waits_checked", 1);
            if in_flight == 0 && !waiting.is_empty() {
                cx.viol(
                    "C05",
                    "retry:delay-blocks-others",
                    format!("runner idle (nothing in flight, waiting for a retry delay) at q{} although scenarios {waiting:?} were never started", q.q),
                    json!(null),
                );
                break;
            }
        }
    }
    // fresh World per attempt: a world id belongs to one group, a group to one attempt
    let mut seen: HashMap<u64, usize> = HashMap::new();
    for (ai, a) in an.attempts.iter().enumerate() {
        if let Some(w) = a.group.and_then(|g| an.groups[g].world) {
            if let Some(prev) = seen.insert(w, ai) {
                cx.viol("C05", "retry:world-reused", format!("World #{w} used by attempts {prev} and {ai}"), json!(null));
            }
        }
    }
}

// ---------------------------------------------------------------------------
// C06 - concurrency limit

/// (in-flight after each event index) from the stream.
fn in_flight_series(evs: &[Rec]) -> Vec<i64> {
    let mut n = 0i64;
    evs.iter()
        .map(|r| {
            match r.ev {
                Ev::Sc(ScEv::Started) => n += 1,
                Ev::Sc(ScEv::Finished) => n -= 1,
                _ => {}
            }
            n
        })
        .collect()
}

fn c06(cx: &mut Ctx<'_, '_>) {
    let an = cx.an;
    let out = an.out;
    let k = an.case.cfg.limit();
    let series = in_flight_series(&out.evs);
    let peak = series.iter().copied().max().unwrap_or(0);
    if let Some(k) = k {
        if peak > k as i64 {
            let at = series.iter().position(|n| *n > k as i64).unwrap();
            cx.viol("C06", "limit:stream", format!("{peak} attempts between Started and Finished at event {at}, limit {k}"), json!(null));
        }
        // user code: overlapping callback-group spans
        let mut points: Vec<(u64, i32)> = Vec::new();
        for g in an.groups.iter().filter(|g| g.cbs.iter().any(|c| an.cb(*c).kind != CbKind::WorldNew) || g.world.is_some()) {
            let end = g.last_exit_seq.unwrap_or(u64::MAX);
            if g.cbs.iter().any(|c| an.cb(*c).exit_seq.is_none()) {
                continue;
            }
            points.push((g.first_enter_seq, 1));
            points.push((end, -1));
        }
        points.sort();
        let mut cur = 0;
        let mut max = 0;
        for (_, d) in points {
            cur += d;
            max = max.max(cur);
        }
        if max > k as i32 {
            cx.viol("C06", "limit:callbacks", format!("user code of {max} scenario attempts in progress at once, limit {k}"), json!(null));
        }
        if k == 1 {
            // strictly one after another: attempts' events never interleave
            for a in &an.attempts {
                let lo = a.evs[0];
                let hi = *a.evs.last().unwrap();
                if let Some(x) = (lo..=hi).find(|&i| an.ev(i).s.is_some_and(|s| (s.ptr, an.ev(i).retries) != (a.s_ptr, a.retries))) {
                    cx.viol("C06", "limit:interleaved-at-1", format!("event {} inside attempt s{} with limit 1", an.ev(x).short(), a.sc_uid), json!(null));
                    break;
                }
            }
        }
    }
    // work conservation at quiescent points (non-fail-fast-tripped cases). With @serial scenarios in
    // the case only the points at which certainly no serial scenario is running or ready are judged:
    // a ready serial scenario legitimately stops the refilling, one that still waits for its retry
    // delay does not.
    let any_serial = an.sc.values().any(|i| i.serial);
    let total: usize = an.sc.len();
    if out.end == End::Ended {
        let kk = k.unwrap_or(usize::MAX);
        // uid -> (ev idx of Finished, delayed)
        let mut pending_retry: HashMap<u32, (usize, bool)> = HashMap::new();
        let mut tripped_at: Option<usize> = None;
        let mut qi = 0;
        let qps = &out.qpoints;
        let mut in_flight = 0i64;
        let mut serial_in_flight = 0i64;
        let mut last_finish_q: Option<u32> = None;
        let mut started_uids: HashSet<u32> = HashSet::new();
        let mut violations: Vec<String> = Vec::new();
        let mut checks = 0u64;
        let mut checks_serial_waiting = 0u64;
        let t_of_q = |n: u32| qps.iter().find(|q| q.q == n).map(|q| q.t);
        #[allow(clippy::too_many_arguments)]
        let eval_q = |upto: usize,
                          in_flight: i64,
                          serial_in_flight: i64,
                          started_uids: &HashSet<u32>,
                          pending_retry: &HashMap<u32, (usize, bool)>,
                          tripped_at: Option<usize>,
                          last_finish_q: Option<u32>,
                          qi: &mut usize,
                          violations: &mut Vec<String>,
                          checks: &mut u64,
                          checks_serial_waiting: &mut u64| {
            while *qi < qps.len() && qps[*qi].n_events <= upto {
                let q = &qps[*qi];
                *qi += 1;
                if q.n_events != upto {
                    continue;
                }
                if tripped_at.is_some() {
                    continue;
                }
                let mut serial_waiting_for_delay = false;
                if any_serial {
                    if serial_in_flight > 0 {
                        continue;
                    }
                    // a first attempt of a serial scenario that may already be stored
                    let maybe_stored = an.sc.iter().any(|(uid, info)| {
                        info.serial
                            && !started_uids.contains(uid)
                            && out.pulls.iter().any(|p| p.what == format!("item:{}", info.item) && p.q <= q.q)
                    });
                    if maybe_stored {
                        continue;
                    }
                    // retries of serial scenarios: ready unless the delay has certainly not expired
                    let mut maybe_ready = false;
                    for (uid, (fin_ev, delayed)) in pending_retry {
                        let Some(info) = an.sc.get(uid) else { continue };
                        if !info.serial {
                            continue;
                        }
                        let us = info.retry.and_then(|x| x.1);
                        // the deadline was taken after the Finished event was sent, hence after
                        // the quiescent point that precedes its receipt
                        let rq = out.evs[*fin_ev].q;
                        let base = if rq == 0 { None } else { t_of_q(rq - 1) };
                        match (delayed, us, base) {
                            (true, Some(us), Some(base)) if q.t < base + std::time::Duration::from_micros(us) => {
                                serial_waiting_for_delay = true;
                            }
                            _ => maybe_ready = true,
                        }
                    }
                    if maybe_ready {
                        continue;
                    }
                }
                // certainly-ready backlog: first attempts of scenarios whose
                // feature was yielded before the last completion (or before
                // the run started when nothing completed yet), and undelayed
                // retries whose failed attempt finished.
                let horizon_q = last_finish_q;
                let mut backlog = 0usize;
                for (uid, info) in &an.sc {
                    if started_uids.contains(uid) {
                        continue;
                    }
                    let pulled = out.pulls.iter().find(|p| p.what == format!("item:{}", info.item));
                    let ready = match (pulled, horizon_q) {
                        (Some(p), Some(h)) => p.q < h,
                        // before any completion only a fully eager parser guarantees that
                        // the item was stored when the first batch was dispatched
                        (Some(_), None) => !an.case.is_lazy(),
                        _ => false,
                    };
                    if ready {
                        backlog += 1;
                    }
                }
                backlog += pending_retry.values().filter(|(_, delayed)| !delayed).count();
                *checks += 1;
                if serial_waiting_for_delay {
                    *checks_serial_waiting += 1;
                }
                if (in_flight as usize) < kk && backlog > 0 && (in_flight as usize) < kk.min(in_flight as usize + backlog) {
                    violations.push(format!(
                        "quiescent point q{} after event {}: {} in flight, limit {:?}, {} certainly-ready concurrent scenario(s) waiting{} ({})",
                        q.q,
                        upto,
                        in_flight,
                        k,
                        backlog,
                        if serial_waiting_for_delay { ", a @serial retry still waits for its delay" } else { "" },
                        q.decision
                    ));
                }
            }
        };
        for (i, r) in out.evs.iter().enumerate() {
            eval_q(
                i,
                in_flight,
                serial_in_flight,
                &started_uids,
                &pending_retry,
                tripped_at,
                last_finish_q,
                &mut qi,
                &mut violations,
                &mut checks,
                &mut checks_serial_waiting,
            );
            if let (Ev::Sc(sev), Some(s)) = (&r.ev, r.s) {
                let is_serial = an.sc.get(&s.uid).is_some_and(|i| i.serial);
                match sev {
                    ScEv::Started => {
                        in_flight += 1;
                        if is_serial {
                            serial_in_flight += 1;
                        }
                        started_uids.insert(s.uid);
                        pending_retry.remove(&s.uid);
                    }
                    ScEv::Finished => {
                        in_flight -= 1;
                        if is_serial {
                            serial_in_flight -= 1;
                        }
                        last_finish_q = Some(r.q);
                        let a = an.attempts.iter().find(|a| a.s_ptr == s.ptr && a.retries == r.retries);
                        if let Some(a) = a {
                            if a.failed() && a.retries.is_some_and(|x| x.1 > 0) {
                                let delayed = an.sc.get(&s.uid).and_then(|i| i.retry).and_then(|x| x.1).is_some();
                                pending_retry.insert(s.uid, (i, delayed));
                            } else if a.is_final_failure() && an.case.cfg.fail_fast() {
                                tripped_at.get_or_insert(i);
                            }
                        }
                    }
                    _ => {}
                }
            }
            if matches!(r.ev, Ev::ParseErr(_)) && an.case.cfg.fail_fast() {
                tripped_at.get_or_insert(i);
            }
        }
        cx.t.count("c06.conservation_checks", checks);
        cx.t.count("c06.conservation_checks_while_serial_retry_waits", checks_serial_waiting);
        if let Some(msg) = violations.first() {
            cx.viol("C06", "limit:not-reached", msg.clone(), json!({"all": violations}));
        }
    }
    if k.is_some_and(|k| total > k) {
        cx.t.nontrivial_case("C06");
        let src = match (an.case.cfg.cli_concurrency.is_some(), an.case.cfg.b_concurrency.is_some()) {
            (true, true) => "both",
            (true, false) => "cli",
            (false, true) => "builder",
            _ => "default",
        };
        cx.t.nontrivial("C06", fnv(&format!("{k:?}|{src}|{peak}")) ^ out.sched_hash);
        cx.t.count("c06.peak_in_flight_max", 0);
        let e = cx.t.counters.entry("c06.peak_in_flight_max".into()).or_insert(0);
        *e = (*e).max(peak as u64);
        if k.is_some_and(|k| peak == k as i64) {
            cx.t.count("c06.limit_reached_cases", 1);
        }
    }
}

// ---------------------------------------------------------------------------
// C07 - serial isolation

fn c07(cx: &mut Ctx<'_, '_>) {
    let an = cx.an;
    let out = an.out;
    let series = in_flight_series(&out.evs);
    for a in &an.attempts {
        let Some(info) = an.sc.get(&a.sc_uid) else { continue };
        if !info.serial {
            continue;
        }
        let (Some(st), Some(fi)) = (a.started, a.finished.or_else(|| a.evs.last().copied())) else { continue };
        cx.t.count("c07.serial_attempts", 1);
        // foreign attempts in flight at the moment the serial attempt starts
        let before = if st == 0 { 0 } else { series[st - 1] };
        let foreign_ev = (st..=fi).find(|&i| {
            let r = an.ev(i);
            matches!(r.ev, Ev::Sc(_)) && r.s.is_some_and(|s| (s.ptr, r.retries) != (a.s_ptr, a.retries))
        });
        let witness = json!({"serial_attempt": an.attempt_words(a), "window": (st.saturating_sub(6)..=(fi + 3).min(out.evs.len() - 1)).map(|i| an.ev(i).short()).collect::<Vec<_>>()});
        let retry_delayed = a.retries.is_some_and(|r| r.0 > info.retry_start) && info.retry.is_some_and(|r| r.1.is_some());
        let late_feature = out.pulls.iter().any(|p| p.what == format!("item:{}", info.item) && p.evs_before > 0);
        let why = if retry_delayed {
            "delayed-retry"
        } else if late_feature {
            "late-feature"
        } else if a.retries.is_some_and(|r| r.0 > info.retry_start) {
            "retry"
        } else {
            "first-attempt"
        };
        if before > 0 || foreign_ev.is_some() {
            cx.viol(
                "C07",
                &format!("serial:overlap-in-stream:{why}"),
                format!(
                    "serial s{} attempt {:?}: {} other attempt(s) in flight when it started; foreign event inside its bracket: {:?}",
                    a.sc_uid,
                    a.retries,
                    before,
                    foreign_ev.map(|i| an.ev(i).short())
                ),
                witness.clone(),
            );
        }
        // callback log: nothing foreign inside the serial group's span
        if let Some(g) = a.group.filter(|g| an.groups[*g].sc_uid.is_some()) {
            let g = &an.groups[g];
            if let Some(end) = g.last_exit_seq {
                let foreign_cb = out.cbs.iter().enumerate().find(|(i, cb)| {
                    !g.cbs.contains(i)
                        && cb.enter_seq < end
                        && cb.exit_seq.is_none_or(|e| e > g.first_enter_seq)
                        && !(cb.kind == CbKind::WorldNew && cb.world.is_none() && a.failed_world_new == Some(*i))
                });
                if let Some((_, cb)) = foreign_cb {
                    cx.viol(
                        "C07",
                        &format!("serial:overlap-in-callbacks:{why}"),
                        format!("serial s{}: callback {:?} '{}' of another scenario ran inside its user-code span", a.sc_uid, cb.kind, cb.text),
                        witness.clone(),
                    );
                }
            }
        }
        // non-trivial: the serial attempt became ready while something else was in flight
        let ready_at = if a.retries.is_some_and(|r| r.0 > info.retry_start) {
            an.by_sc[&a.sc_uid]
                .iter()
                .map(|i| &an.attempts[*i])
                .filter(|p| p.finished.is_some_and(|f| f < st))
                .filter_map(|p| p.finished)
                .max()
        } else {
            None
        };
        let contended = match ready_at {
            Some(f) => (f..st).any(|i| series[i] > 0),
            None => late_feature && (0..st).any(|i| series[i] > 0),
        };
        if contended {
            cx.t.nontrivial_case("C07");
            cx.t.nontrivial("C07", fnv(&format!("{why}|{:?}|{}", an.case.cfg.limit(), an.case.cfg.custom_which)) ^ out.sched_hash);
        }
    }
}

// ---------------------------------------------------------------------------
// C08 - fail-fast

fn c08(cx: &mut Ctx<'_, '_>) {
    let an = cx.an;
    let out = an.out;
    if !an.case.cfg.fail_fast() {
        return;
    }
    let ended = out.end == End::Ended;
    let k = an.case.cfg.limit();
    let mut v: Vec<(String, String)> = Vec::new();
    let first_err_ev = out.evs.iter().find(|r| matches!(r.ev, Ev::ParseErr(_))).map(|r| r.idx);
    let trip = an.first_final_failure;
    if let Some(t) = trip {
        let late: Vec<&Rec> = out.evs[t + 1..].iter().filter(|r| matches!(r.ev, Ev::Sc(ScEv::Started))).collect();
        let bound = k.unwrap_or(usize::MAX);
        if late.len() >= bound {
            v.push(("dispatch-after-trip".into(), format!("{} attempts Started after the first final failure (event {t}), limit {k:?}", late.len())));
        }
        // a late start must belong to brackets already open at the trip
        for r in &late {
            let f_open = out.evs[..t].iter().any(|e| e.ev == Ev::FeatStarted && e.f == r.f);
            let r_open = r.r.is_none() || out.evs[..t].iter().any(|e| e.ev == Ev::RuleStarted && e.r == r.r);
            if !f_open || !r_open {
                v.push(("new-bracket-after-trip".into(), format!("{} opened a new feature/rule after the trip", r.short())));
            }
        }
        // in flight at the trip
        let series = in_flight_series(&out.evs);
        if series[t] > 0 {
            cx.t.nontrivial_case("C08");
            cx.t.nontrivial("C08", fnv(&format!("{}|{k:?}|{}", series[t], late.len())) ^ out.sched_hash);
        }
        cx.t.count("c08.trips", 1);
        cx.t.count("c08.started_after_trip", late.len() as u64);
    } else if ended && first_err_ev.is_none() {
        // nothing failed finally: everything must have run (a retried failure must not trip it)
        let supplied = an.sc.len();
        let started: HashSet<u32> = an.attempts.iter().filter(|a| a.started.is_some()).map(|a| a.sc_uid).collect();
        if started.len() != supplied {
            v.push(("tripped-without-final-failure".into(), format!("{} of {supplied} scenarios ran although no attempt failed finally", started.len())));
        }
        for (uid, ais) in &an.by_sc {
            let last = &an.attempts[*ais.last().unwrap()];
            if last.failed() && last.retries.is_some_and(|r| r.1 > 0) {
                v.push(("retry-dropped".into(), format!("s{uid}: a due retry did not run although nothing failed finally")));
            }
        }
        if an.attempts.iter().any(|a| a.failed()) {
            cx.t.nontrivial_case("C08");
            cx.t.nontrivial("C08", fnv("retried-failure-no-trip") ^ out.sched_hash);
        }
    }
    if ended {
        for a in &an.attempts {
            if a.started.is_some() && a.finished.is_none() {
                v.push(("attempt-not-finished".into(), format!("s{} {:?} Started without Finished", a.sc_uid, a.retries)));
            }
        }
        if out.evs.last().map(|r| &r.ev) != Some(&Ev::Finished) {
            v.push(("no-run-finished".into(), "stream did not end with run-Finished".into()));
        }
        // every started feature and rule still gets its Finished
        for r in out.evs.iter().filter(|r| r.ev == Ev::FeatStarted) {
            if !out.evs[r.idx..].iter().any(|e| e.ev == Ev::FeatFinished && e.f == r.f) {
                v.push(("feature-not-finished".into(), format!("{} has no Finished", r.short())));
            }
        }
        for r in out.evs.iter().filter(|r| r.ev == Ev::RuleStarted) {
            if !out.evs[r.idx..].iter().any(|e| e.ev == Ev::RuleFinished && e.r == r.r && e.f == r.f) {
                v.push(("rule-not-finished".into(), format!("{} has no Finished", r.short())));
            }
        }
    }
    // after the first parser error nothing more is ingested
    if let Some(epos) = an.pulled_items.iter().position(|&i| !matches!(an.case.items[i], Item::Feat(_))) {
        if an.pulled_items.len() > epos + 1 {
            v.push(("ingest-after-error".into(), format!("parser stream yielded {} more item(s) after the first error", an.pulled_items.len() - epos - 1)));
        }
        cx.t.nontrivial("C08", fnv(&format!("parse-error|{epos}|{}", an.case.items.len())));
    }
    for (sig, msg) in v {
        cx.viol("C08", &format!("failfast:{sig}"), msg, json!(null));
    }
}

// ---------------------------------------------------------------------------
// C09 - World lifecycle and hook contract

fn c09(cx: &mut Ctx<'_, '_>) {
    let an = cx.an;
    let out = an.out;
    if matches!(out.end, End::PanicEscaped(_)) {
        return;
    }
    let cfg = &an.case.cfg;
    for a in &an.attempts {
        if a.finished.is_none() {
            continue;
        }
        let exp = an.expected_cbs(a);
        let mut v: Vec<(String, String)> = Vec::new();
        let got: Vec<usize> = a.group.map_or(Vec::new(), |g| an.groups[g].cbs.clone());
        let world_news: Vec<usize> = got.iter().copied().filter(|c| an.cb(*c).kind == CbKind::WorldNew).collect();
        let user: Vec<usize> = got.iter().copied().filter(|c| an.cb(*c).kind != CbKind::WorldNew).collect();
        if exp.is_empty() {
            if a.group.is_some() {
                v.push(("unexpected-callbacks".into(), "callbacks ran for an attempt that executed nothing".into()));
            }
        } else if a.group.is_none() {
            v.push(("callbacks-missing".into(), format!("no callback group found for expected {exp:?}")));
        } else {
            let got_sig: Vec<(CbKind, &str)> = user.iter().map(|c| (an.cb(*c).kind, an.cb(*c).text.as_str())).collect();
            let exp_sig: Vec<(CbKind, &str)> = exp.iter().map(|e| (e.kind, e.text.as_str())).collect();
            if got_sig != exp_sig {
                v.push(("callback-sequence".into(), format!("callbacks {got_sig:?} but the events imply {exp_sig:?}")));
            }
            let g = &an.groups[a.group.unwrap()];
            // counters thread through
            for (i, c) in user.iter().enumerate() {
                let cb = an.cb(*c);
                if g.world.is_some() && cb.counter != Some(i as u64) {
                    v.push(("world-state".into(), format!("{:?} '{}' saw World counter {:?}, expected {i}", cb.kind, cb.text, cb.counter)));
                    break;
                }
                if cb.world != g.world {
                    v.push(("world-identity".into(), format!("{:?} saw World {:?}, attempt's World is {:?}", cb.kind, cb.world, g.world)));
                }
            }
            if world_news.len() + usize::from(a.failed_world_new.is_some()) > 1 {
                v.push(("world-created-twice".into(), format!("{} World::new calls in one attempt", world_news.len() + usize::from(a.failed_world_new.is_some()))));
            }
            if g.world.is_some() && world_news.len() != 1 {
                v.push(("world-origin".into(), format!("World {:?} used but {} World::new calls produced it", g.world, world_news.len())));
            }
            if let (Some(wn), Some(first)) = (world_news.first(), user.first()) {
                if an.cb(*wn).exit_seq.is_none_or(|e| e > an.cb(*first).enter_seq) {
                    v.push(("world-origin".into(), "World used before World::new returned".into()));
                }
            }
            // before hook first
            if cfg.before_hook && g.world.is_some() && user.first().is_some_and(|c| an.cb(*c).kind != CbKind::Before) {
                v.push(("before-not-first".into(), "before hook is not the first callback on the World".into()));
            }
            // after hook: once, last, right reason, World iff created
            if cfg.after_hook {
                let afters: Vec<usize> = user.iter().copied().filter(|c| an.cb(*c).kind == CbKind::After).collect();
                if afters.len() != 1 || user.last() != afters.first() {
                    v.push(("after-hook-count".into(), format!("{} after-hook invocations / not last", afters.len())));
                } else {
                    let cb = an.cb(afters[0]);
                    let reason = expected_fin(an, a);
                    if cb.fin.as_deref() != Some(reason.as_str()) {
                        v.push(("after-hook-reason".into(), format!("after hook got {:?}, scenario actually ended with {reason}", cb.fin)));
                    }
                    let world_exists = world_news.len() == 1 || user.iter().any(|c| an.cb(*c).kind != CbKind::After);
                    if cb.world.is_some() != world_exists {
                        v.push(("after-hook-world".into(), format!("after hook got World {:?} but a World was{} created", cb.world, if world_exists { "" } else { " not" })));
                    }
                }
            }
        }
        // a World was created although nothing required one
        let needs_world = cfg.before_hook
            || a.evs.iter().any(|&i| {
                matches!(
                    an.ev(i).is_sc(),
                    Some(ScEv::Step { ev: StepEv::Passed | StepEv::Failed { err: StepErr::Panic(_), .. }, .. })
                )
            });
        if !needs_world && (!world_news.is_empty() || a.failed_world_new.is_some()) {
            v.push(("world-created-needlessly".into(), "World::new called although no before hook is set and no step matched".into()));
        }
        if cfg.before_hook || cfg.after_hook || user.len() >= 2 {
            let sig = format!(
                "{:?}|{}{}|{}|{}",
                exp.iter().map(|e| format!("{:?}", e.kind).chars().next().unwrap()).collect::<String>(),
                cfg.before_hook,
                cfg.after_hook,
                a.failed_world_new.is_some(),
                expected_fin(an, a).split('(').next().unwrap_or("")
            );
            cx.t.nontrivial("C09", fnv(&sig));
        }
        for (sig, msg) in v {
            let cbs: Vec<String> = got
                .iter()
                .map(|c| {
                    let cb = an.cb(*c);
                    format!("{:?} '{}' world={:?} counter={:?} fin={:?} -> {:?}", cb.kind, cb.text, cb.world, cb.counter, cb.fin, cb.outcome)
                })
                .collect();
            cx.viol("C09", &format!("world:{sig}"), format!("s{} {:?}: {msg}", a.sc_uid, a.retries), json!({"attempt": an.attempt_words(a), "callbacks": cbs}));
        }
    }
    if out.end == End::Ended {
        for g in an.groups.iter().filter(|g| !g.consumed) {
            let cbs: Vec<String> = g.cbs.iter().map(|c| format!("{:?} '{}' world={:?}", an.cb(*c).kind, an.cb(*c).text, an.cb(*c).world)).collect();
            cx.viol("C09", "world:orphan-callbacks", format!("callbacks no attempt accounts for: {cbs:?}"), json!(null));
        }
    }
}

fn expected_fin(an: &Analysis<'_>, a: &Attempt) -> String {
    for &i in &a.evs {
        match an.ev(i).is_sc() {
            Some(ScEv::Hook { before: true, ev: HookEv::Failed { payload, .. } }) => {
                return format!("BeforeHookFailed({payload:?})");
            }
            Some(ScEv::Step { ev: StepEv::Failed { err, .. }, .. }) => return format!("StepFailed({err:?})"),
            Some(ScEv::Step { ev: StepEv::Skipped, .. }) => return "StepSkipped".into(),
            _ => {}
        }
    }
    "StepPassed".into()
}

// ---------------------------------------------------------------------------
// C10 - panics contained and reported, hook restored

fn c10(cx: &mut Ctx<'_, '_>) {
    let an = cx.an;
    let out = an.out;
    if let End::PanicEscaped(p) = &out.end {
        cx.viol("C10", "panic:escaped", format!("a panic escaped the event stream: {p}"), json!(null));
        return;
    }
    if out.sentinel_hits_during > 0 {
        cx.viol(
            "C10",
            "panic:hook-invoked-during-run",
            format!("the process panic hook installed before the run was invoked {} time(s) while the run was in progress", out.sentinel_hits_during),
            json!(null),
        );
    }
    if out.end == End::Ended && !out.hook_restored {
        cx.viol("C10", "panic:hook-not-restored", "after the run a probe panic did not reach the panic hook installed before it".into(), json!(null));
    }
    // every thrown panic / Err has exactly one Failed event carrying it, and vice versa
    let mut thrown: BTreeMap<u64, usize> = BTreeMap::new(); // token -> cb idx
    for (i, cb) in out.cbs.iter().enumerate() {
        match cb.outcome {
            CbOutcome::Panic(_, t) | CbOutcome::Err(t) => {
                thrown.insert(t, i);
            }
            _ => {}
        }
    }
    let mut reported: BTreeMap<usize, usize> = BTreeMap::new(); // cb idx -> count
    for a in &an.attempts {
        for &i in &a.evs {
            let r = an.ev(i);
            let (payload, world, kind, text): (_, _, CbKind, Option<&str>) = match r.is_sc() {
                Some(ScEv::Step { text, ev: StepEv::Failed { err: StepErr::Panic(p), world, .. }, .. }) => (p, *world, CbKind::Step, Some(text.as_str())),
                Some(ScEv::Hook { before, ev: HookEv::Failed { payload, world } }) => {
                    (payload, *world, if *before { CbKind::Before } else { CbKind::After }, None)
                }
                _ => continue,
            };
            // locate the callback that threw
            let candidates: Vec<(usize, &crate::world::Cb)> = out.cbs.iter().enumerate().filter(|(ci, cb)| {
                let same_site = match (world, kind) {
                    (Some(w), k) => cb.kind == k && cb.world == Some(w) && text.is_none_or(|t| cb.text == t),
                    (None, CbKind::After) => cb.kind == CbKind::After && cb.world.is_none() && cb.sc_uid == Some(a.sc_uid),
                    (None, _) => a.failed_world_new == Some(*ci),
                };
                same_site
                    && match &cb.outcome {
                        CbOutcome::Err(t) => matches!(payload, crate::evrec::Payload::Str(s) if s.contains(&format!("world-err#{t}#"))),
                        o @ CbOutcome::Panic(..) => Analysis::payload_matches(payload, o),
                        _ => false,
                    }
            }).collect();
            // several callbacks can be indistinguishable by site and payload (after hooks
            // without a World throwing the same token-less &'static str in different
            // attempts): each Failed event is matched to one that is still unreported
            let found = candidates.iter().find(|(ci, _)| !reported.contains_key(ci)).or(candidates.first()).copied();
            match found {
                Some((ci, _)) => *reported.entry(ci).or_insert(0) += 1,
                None => cx.viol("C10", "panic:phantom-failure", format!("Failed event without a matching thrown panic/error: {}", r.short()), json!({"attempt": an.attempt_words(a)})),
            }
        }
    }
    if out.end == End::Ended {
        for (tok, ci) in &thrown {
            let cb = an.cb(*ci);
            let n = reported.get(ci).copied().unwrap_or(0);
            // after(None) hooks of the same scenario are interchangeable for Str payloads; accept >=1 overall
            if n == 0 {
                cx.viol(
                    "C10",
                    "panic:lost",
                    format!("{:?} '{}' threw {:?} (token {tok}) but no Failed event carries it", cb.kind, cb.text, cb.outcome),
                    json!(null),
                );
            } else if n > 1 && !(cb.kind == CbKind::After && cb.world.is_none()) {
                cx.viol("C10", "panic:duplicated", format!("{:?} '{}' failure reported {n} times", cb.kind, cb.text), json!(null));
            }
        }
        // attempts of panicking callbacks still got their after hook and Finished
        for a in &an.attempts {
            if a.failed() && a.finished.is_none() {
                cx.viol("C10", "panic:attempt-not-finished", format!("failed attempt of s{} has no Finished", a.sc_uid), json!(null));
            }
            if a.failed() && an.case.cfg.after_hook {
                let has_after = a.evs.iter().any(|&i| matches!(an.ev(i).is_sc(), Some(ScEv::Hook { before: false, ev: HookEv::Started })));
                if !has_after {
                    cx.viol("C10", "panic:no-after-hook", format!("failed attempt of s{} did not get its after hook", a.sc_uid), json!({"attempt": an.attempt_words(a)}));
                }
            }
        }
        if out.evs.last().map(|r| &r.ev) != Some(&Ev::Finished) {
            cx.viol("C10", "panic:no-run-finished", "run with panics did not end with run-Finished".into(), json!(null));
        }
    }
    if !thrown.is_empty() {
        cx.t.nontrivial_case("C10");
        let mut sites: Vec<String> = thrown
            .values()
            .map(|ci| {
                let cb = an.cb(*ci);
                format!("{:?}{}", cb.kind, match &cb.outcome { CbOutcome::Panic(k, _) => format!("{k:?}"), CbOutcome::Err(_) => "Err".into(), _ => String::new() })
            })
            .collect();
        sites.sort();
        sites.dedup();
        cx.t.nontrivial("C10", fnv(&sites.join("+")));
        cx.t.count("c10.panics_thrown", thrown.len() as u64);
    }
}

// ---------------------------------------------------------------------------
// C18 (end-to-end part) - Retries on the first Started of each scenario

fn c18(cx: &mut Ctx<'_, '_>) {
    let an = cx.an;
    // the CLI values have to arrive in the first place: the runner's options are global ones and may
    // follow a sub-command of the test binary's own CLI
    if let Some(why) = crate::world::with_rs(|rs| rs.cli_rejected.clone()) {
        cx.viol("C18", "cli:runner-option-rejected-after-subcommand", format!("the crate's CLI rejected {why}"), json!(null));
        return;
    }
    // "likewise CLI --concurrency overrides and --fail-fast adds to the builder settings"
    {
        let c = &an.case.cfg;
        let series = in_flight_series(&an.out.evs);
        let peak = series.iter().copied().max().unwrap_or(0);
        let both_differ = c.cli_concurrency.is_some() && c.b_concurrency.is_some_and(|b| b != c.cli_concurrency);
        if let Some(k) = c.limit() {
            if peak > k as i64 {
                cx.viol("C18", "merge:concurrency-exceeded", format!("{peak} attempts in flight; --concurrency {:?} over max_concurrent_scenarios {:?} gives {k}", c.cli_concurrency, c.b_concurrency), json!(null));
            }
        }
        // with everything available at the first dispatch the first batch fills min(limit, scenarios)
        let any_serial = an.sc.values().any(|i| i.serial);
        // (a parser error under fail-fast, or a first failure, cuts the supply short)
        let all_supplied = an.pulled_items.len() == an.case.items.len() && !(c.fail_fast() && (an.first_final_failure.is_some() || an.out.evs.iter().any(|r| matches!(r.ev, Ev::ParseErr(_)))));
        if !an.case.is_lazy() && !any_serial && all_supplied && an.out.end == End::Ended && c.cli_concurrency.is_some() {
            let n = an.sc.len() as i64;
            let want = c.limit().map_or(n, |k| (k as i64).min(n));
            if peak < want {
                cx.viol("C18", "merge:concurrency-not-from-cli", format!("at most {peak} attempts in flight although {n} scenarios were available at once and --concurrency {:?} (builder {:?}) allows {want}", c.cli_concurrency, c.b_concurrency), json!(null));
            }
        }
        let expected_ff = c.cli_ff || c.b_ff;
        let supplied: usize = an.sc.len();
        let started: HashSet<u32> = an.attempts.iter().filter(|a| a.started.is_some()).map(|a| a.sc_uid).collect();
        if an.out.end == End::Ended && an.pulled_items.len() == an.case.items.len() {
            if !expected_ff && started.len() != supplied {
                cx.viol("C18", "merge:fail-fast-without-being-set", format!("{} of {supplied} scenarios ran although neither --fail-fast nor fail_fast() is set", started.len()), json!(null));
            }
        }
        if expected_ff && an.out.end == End::Ended {
            if let (Some(t), Some(k)) = (an.first_final_failure, c.limit()) {
                let late = an.out.evs[t + 1..].iter().filter(|r| matches!(r.ev, Ev::Sc(ScEv::Started))).count();
                if late >= k {
                    cx.viol("C18", "merge:fail-fast-ignored", format!("fail-fast set (cli {}, builder {}) but {late} attempts started after the first final failure", c.cli_ff, c.b_ff), json!(null));
                }
            }
        }
        // "--fail-fast adds to the builder settings" also where the parser stream is consumed: with
        // either of them set nothing is ingested after the first parser error, with neither all is
        if let Some(epos) = an.pulled_items.iter().position(|&i| !matches!(an.case.items[i], Item::Feat(_))) {
            let after = an.pulled_items.len() - epos - 1;
            if expected_ff && after > 0 {
                cx.viol("C18", "merge:fail-fast-ignored", format!("fail-fast set (cli {}, builder {}) but {after} more item(s) were ingested after the first parser error", c.cli_ff, c.b_ff), json!(null));
            }
            if !expected_ff && an.out.end == End::Ended && an.pulled_items.len() != an.case.items.len() {
                cx.viol("C18", "merge:fail-fast-without-being-set", format!("only {} of {} parser items were ingested although neither --fail-fast nor fail_fast() is set", an.pulled_items.len(), an.case.items.len()), json!(null));
            }
            if c.cli_ff != c.b_ff {
                cx.t.nontrivial("C18", fnv(&format!("merge-ingest|{}|{}|{epos}|{}", c.cli_ff, c.b_ff, an.case.items.len())));
            }
        }
        if both_differ || (c.cli_ff != c.b_ff) {
            cx.t.nontrivial("C18", fnv(&format!("merge|{:?}|{:?}|{}|{}", c.cli_concurrency, c.b_concurrency, c.cli_ff, c.b_ff)));
        }
    }
    for (uid, ais) in &an.by_sc {
        let Some(info) = an.sc.get(uid) else { continue };
        let first = &an.attempts[ais[0]];
        let exp = info.retry.map(|(n, _)| (info.retry_start, n));
        if first.started.is_some() && first.retries != exp {
            cx.viol(
                "C18",
                "retry-options:first-started",
                format!("s{uid}: first Started carries {:?}, statement gives {exp:?} (tags {:?}/{:?}/{:?}, cfg {:?})", first.retries, info.s.tags, info.r.map(|r| &r.tags), info.f.tags, an.case.cfg),
                json!(null),
            );
        }
        let c = &an.case.cfg;
        let sources = [c.cli_retry.is_some(), c.b_retry.is_some(), c.cli_retry_after_us.is_some(), c.b_retry_after_us.is_some(), c.cli_filter.is_some(), c.b_filter.is_some()]
            .iter()
            .filter(|x| **x)
            .count();
        let tagged = info.s.tags.iter().chain(info.r.iter().flat_map(|r| &r.tags)).chain(&info.f.tags).any(|t| t.starts_with("retry"));
        if sources + usize::from(tagged) >= 2 {
            cx.t.nontrivial("C18", fnv(&format!("{:?}|{tagged}|{:?}|{:?}|{:?}|{:?}|{}{}", info.retry, c.cli_retry, c.b_retry, c.cli_retry_after_us, c.b_retry_after_us, c.cli_filter.is_some(), c.b_filter.is_some())));
        }
    }
}
