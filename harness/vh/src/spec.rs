//! Case specification and seeded generator for the runner workloads (`vrun`).
//!
//! A case = features (as `gherkin::*` struct literals) + per-unit behaviour
//! plan + configuration (CLI and builder values) + parser delivery behaviour +
//! schedule policy. Everything derives deterministically from (seed, index,
//! profile), which is what a replay file stores.

use std::{collections::HashMap, path::PathBuf, time::Duration};

use cucumber::gherkin;

use crate::rng::Rng;

#[derive(Clone, Copy, Debug, PartialEq, Eq)]
pub enum StepKind {
    /// Matches exactly one definition.
    Run,
    /// Matches no definition.
    NoMatch,
    /// Matches two definitions.
    Ambiguous,
}

#[derive(Clone, Debug)]
pub struct StepSpec {
    pub kw: u8, // 0 Given, 1 When, 2 Then
    pub text: String,
    pub kind: StepKind,
    /// Plan key ("S:s12:3", "B:f2:0", "B:r5:1").
    pub unit: String,
    pub doc: Option<String>,
    pub table: Option<Vec<Vec<String>>>,
}

#[derive(Clone, Debug)]
pub struct ScSpec {
    pub uid: u32,
    pub name: String,
    pub tags: Vec<String>,
    pub steps: Vec<StepSpec>,
}

#[derive(Clone, Debug)]
pub struct RuleSpec {
    pub uid: u32,
    pub name: String,
    pub tags: Vec<String>,
    pub bg: Vec<StepSpec>,
    pub scenarios: Vec<ScSpec>,
}

#[derive(Clone, Debug)]
pub struct FeatSpec {
    pub uid: u32,
    pub name: String,
    pub tags: Vec<String>,
    pub bg: Vec<StepSpec>,
    pub scenarios: Vec<ScSpec>,
    pub rules: Vec<RuleSpec>,
    pub path: Option<PathBuf>,
}

#[derive(Clone, Debug)]
pub enum Item {
    Feat(FeatSpec),
    /// `parser::Error::Parsing`
    ErrParse(u32),
    /// `parser::Error::ExampleExpansion`
    ErrExpand(u32),
}

#[derive(Clone, Copy, Debug, PartialEq, Eq)]
pub enum Pend {
    /// Returns `Pending` after waking itself.
    SelfWake,
    /// Returns `Pending`; woken later by the harness scheduler ("late").
    Sched,
}

#[derive(Clone, Copy, Debug, PartialEq, Eq)]
pub enum PanicKind {
    String,
    Str,
    Custom,
    Int,
}

#[derive(Clone, Copy, Debug, PartialEq, Eq)]
pub enum Outcome {
    Pass,
    Panic(PanicKind),
}

#[derive(Clone, Copy, Debug)]
pub struct Behav {
    pub gates_before: u8,
    pub gates_after: u8,
    pub outcome: Outcome,
    /// Number of `tracing` log lines to emit (vtrace only).
    pub logs_before: u16,
    pub logs_after: u16,
    /// Panic synchronously inside the callback fn, before it returns its future.
    pub eager: bool,
    /// Log lines emitted later, from outside the callback, inside a clone of its span
    /// (like a task spawned `.in_current_span()`); vt only.
    pub deferred_logs: u8,
}

impl Behav {
    pub const PASS: Behav = Behav {
        gates_before: 0,
        gates_after: 0,
        outcome: Outcome::Pass,
        logs_before: 0,
        logs_after: 0,
        eager: false,
        deferred_logs: 0,
    };
}

#[derive(Clone, Copy, Debug, PartialEq, Eq)]
pub enum WorldBehav {
    Ok,
    Err,
    Panic(PanicKind),
    /// panics in the synchronous prologue of `World::new()`, before the future exists
    EagerPanic(PanicKind),
}

#[derive(Clone, Copy, Debug, PartialEq, Eq)]
pub enum Policy {
    Random,
    Fifo,
    Lifo,
    /// Never release gates of one chosen scenario while others can move.
    StarveOne,
    /// Prefer releasing gates of non-serial scenarios first.
    SerialLast,
}

#[derive(Clone, Debug, Default)]
pub struct Cfg {
    pub cli_concurrency: Option<usize>,
    /// `None` = builder not called (default 64); `Some(x)` = `.max_concurrent_scenarios(x)`.
    pub b_concurrency: Option<Option<usize>>,
    pub cli_retry: Option<usize>,
    pub b_retry: Option<usize>,
    pub cli_retry_after_us: Option<u64>,
    pub b_retry_after_us: Option<u64>,
    pub cli_filter: Option<String>,
    pub b_filter: Option<String>,
    pub cli_ff: bool,
    pub b_ff: bool,
    pub before_hook: bool,
    pub after_hook: bool,
    /// Custom `which_scenario`: serial iff scenario name contains "SOLO".
    pub custom_which: bool,
    /// Custom `retry_options` function (a "resumed run"): a scenario tagged `resumed.C.L` starts
    /// with `Retries { current: C, left: L }`, every other one gets the default options.
    pub resume: bool,
}

/// `resumed.C.L` -> (C, L)
pub fn resumed_tag(tags: &[String]) -> Option<(usize, usize)> {
    tags.iter().find_map(|t| {
        let mut it = t.strip_prefix("resumed.")?.split('.');
        Some((it.next()?.parse().ok()?, it.next()?.parse().ok()?))
    })
}

impl Cfg {
    /// The effective limit; one that no run can reach (`usize::MAX` and the like) bounds nothing,
    /// and is reported as none.
    pub fn limit(&self) -> Option<usize> {
        self.cli_concurrency
            .or(match self.b_concurrency {
                None => Some(64),
                Some(x) => x,
            })
            .filter(|k| *k < 1 << 30)
    }
    pub fn fail_fast(&self) -> bool {
        self.cli_ff || self.b_ff
    }
}

#[derive(Clone, Debug)]
pub struct CaseSpec {
    pub items: Vec<Item>,
    /// `Pending`s before each item, plus one extra entry for end-of-stream.
    pub pend: Vec<Vec<Pend>>,
    pub cfg: Cfg,
    pub plan: HashMap<String, Vec<Behav>>,
    /// Behaviour of the n-th `World::new` call (last repeats).
    pub world_plan: Vec<WorldBehav>,
    pub world_gates: u8,
    pub policy: Policy,
    pub sched_seed: u64,
    /// Harness sleeps (ms) at a quiescent point with this percent chance.
    pub sched_sleep_pct: u8,
    /// Percent chance, per quiescent point, that the scheduler releases several gates at once
    /// (several user futures become ready between two polls and complete in the same poll round).
    pub sched_multi_pct: u8,
    pub profile: String,
}

/// Knobs of the generator, all percentages unless stated.
#[derive(Clone, Debug)]
pub struct Profile {
    pub name: &'static str,
    pub max_features: usize,
    pub max_top_scen: usize,
    pub max_rules: usize,
    pub max_rule_scen: usize,
    pub max_steps: usize,
    pub max_bg: usize,
    pub p_serial: usize,
    pub p_retry_tag: usize,
    pub p_delay: usize,
    pub p_fail_unit: usize,
    pub p_nomatch: usize,
    pub p_ambig: usize,
    pub p_hook: usize,
    pub p_hook_fail: usize,
    pub p_world_fail: usize,
    pub p_lazy: usize,
    pub p_parse_err: usize,
    pub p_ff: usize,
    pub p_gate: usize,
    pub p_cfg_retry: usize,
    pub limits: &'static [Option<usize>],
    pub p_empty: usize,
    pub p_custom_which: usize,
    /// % of cases run with a custom `retry_options` function (resumed run)
    pub p_resume: usize,
    /// % of cases that are one wide feature (more scenarios than the default limit of 64)
    pub p_wide: usize,
    pub p_sleep: usize,
    pub p_filter: usize,
    /// Percentage of callbacks emitting tracing log lines (vt only).
    pub p_logs: usize,
}

impl Profile {
    pub fn general() -> Self {
        Profile {
            name: "general",
            max_features: 3,
            max_top_scen: 4,
            max_rules: 2,
            max_rule_scen: 3,
            max_steps: 4,
            max_bg: 2,
            p_serial: 10,
            p_retry_tag: 25,
            p_delay: 10,
            p_fail_unit: 12,
            p_nomatch: 6,
            p_ambig: 3,
            p_hook: 60,
            p_hook_fail: 8,
            p_world_fail: 4,
            p_lazy: 30,
            p_parse_err: 10,
            p_ff: 15,
            p_gate: 60,
            p_cfg_retry: 25,
            limits: &[Some(1), Some(2), Some(3), Some(64), Some(usize::MAX), None],
            p_empty: 10,
            p_custom_which: 8,
            p_resume: 6,
            p_wide: 0,
            p_sleep: 0,
            p_filter: 15,
            p_logs: 0,
        }
    }

    pub fn by_name(name: &str) -> Self {
        let g = Self::general();
        match name {
            "general" => g,
            // verdict: many failures of all kinds, retries, hooks failing in any attempt
            "c01" => Profile {
                name: "c01",
                p_fail_unit: 20,
                p_hook: 80,
                p_hook_fail: 20,
                p_retry_tag: 45,
                p_cfg_retry: 35,
                p_nomatch: 10,
                p_delay: 3,
                p_lazy: 15,
                ..g
            },
            // per-attempt grammar: deep backgrounds, many interleaved scenarios
            "c02" => Profile {
                name: "c02",
                max_features: 2,
                max_top_scen: 5,
                max_steps: 5,
                max_bg: 3,
                p_fail_unit: 15,
                p_nomatch: 10,
                p_ambig: 6,
                p_hook: 70,
                p_hook_fail: 12,
                p_world_fail: 8,
                p_delay: 2,
                p_gate: 80,
                p_ff: 8,
                ..g
            },
            // framing: many features/rules, empty ones, lazy parser, errors
            "c03" => Profile {
                name: "c03",
                max_features: 4,
                max_rules: 3,
                p_empty: 25,
                p_lazy: 50,
                p_parse_err: 25,
                p_ff: 25,
                p_delay: 3,
                ..g
            },
            // termination / idle path: lazy parser always, little else
            "c04" => Profile {
                name: "c04",
                max_features: 4,
                max_top_scen: 3,
                max_steps: 2,
                p_lazy: 100,
                p_parse_err: 10,
                p_ff: 0,
                p_delay: 15,
                p_retry_tag: 30,
                p_gate: 50,
                p_empty: 20,
                ..g
            },
            // retries
            "c05" => Profile {
                name: "c05",
                max_features: 2,
                p_retry_tag: 70,
                p_cfg_retry: 40,
                p_delay: 35,
                p_fail_unit: 30,
                p_hook_fail: 15,
                p_world_fail: 8,
                p_ff: 0,
                p_sleep: 10,
                p_parse_err: 0,
                ..g
            },
            // concurrency limit: many scenarios, no serial in most
            "c06" => Profile {
                name: "c06",
                max_features: 3,
                max_top_scen: 8,
                max_rule_scen: 4,
                max_steps: 2,
                p_serial: 4,
                p_gate: 95,
                p_delay: 2,
                p_ff: 5,
                p_parse_err: 3,
                limits: &[Some(1), Some(2), Some(3), Some(5), Some(64), Some(usize::MAX), None],
                p_wide: 2,
                ..g
            },
            // serial isolation
            "c07" => Profile {
                name: "c07",
                max_features: 3,
                max_top_scen: 5,
                p_serial: 35,
                p_retry_tag: 45,
                p_delay: 40,
                p_fail_unit: 25,
                p_lazy: 50,
                p_gate: 90,
                p_ff: 5,
                p_sleep: 15,
                p_custom_which: 20,
                p_parse_err: 3,
                ..g
            },
            // fail-fast
            "c08" => Profile {
                name: "c08",
                max_features: 3,
                max_top_scen: 5,
                p_ff: 85,
                p_fail_unit: 14,
                p_retry_tag: 35,
                p_delay: 5,
                p_gate: 85,
                p_lazy: 30,
                p_parse_err: 15,
                ..g
            },
            // world lifecycle: hooks present or not, failures in hooks / world
            "c09" => Profile {
                name: "c09",
                p_hook: 55,
                p_hook_fail: 15,
                p_world_fail: 10,
                p_nomatch: 15,
                p_fail_unit: 15,
                p_delay: 2,
                ..g
            },
            // panics everywhere
            "c10" => Profile {
                name: "c10",
                p_fail_unit: 30,
                p_hook: 75,
                p_hook_fail: 30,
                p_world_fail: 15,
                p_delay: 2,
                p_ff: 5,
                ..g
            },
            // retry option resolution end-to-end: tags on all levels + cli + builder
            "c18" => Profile {
                name: "c18",
                max_features: 3,
                max_steps: 2,
                p_retry_tag: 50,
                p_cfg_retry: 70,
                p_filter: 50,
                p_fail_unit: 45,
                p_delay: 8,
                p_ff: 25,
                p_lazy: 10,
                p_parse_err: 15,
                ..g
            },
            // tracing attribution: many concurrent scenarios logging around await points
            "c20" => Profile {
                name: "c20",
                max_features: 2,
                max_top_scen: 5,
                max_rule_scen: 3,
                max_steps: 3,
                p_serial: 5,
                p_retry_tag: 30,
                p_delay: 15,
                p_fail_unit: 15,
                p_hook_fail: 8,
                p_world_fail: 3,
                p_lazy: 10,
                p_parse_err: 0,
                p_ff: 0,
                p_gate: 85,
                p_hook: 65,
                p_logs: 70,
                limits: &[Some(2), Some(3), Some(64), Some(usize::MAX), None],
                ..g
            },
            // small and quick (Miri)
            "tiny" => Profile {
                name: "tiny",
                max_features: 2,
                max_top_scen: 2,
                max_rules: 1,
                max_rule_scen: 2,
                max_steps: 2,
                max_bg: 1,
                p_delay: 10,
                p_fail_unit: 25,
                p_hook_fail: 20,
                p_world_fail: 10,
                ..g
            },
            other => panic!("unknown profile {other}"),
        }
    }
}

// plain tags, and near-misses of the tags that mean something (exact matches only count)
const PLAIN_TAGS: &[&str] = &["a", "b", "slow", "wip", "ab", "disallow.skipped", "allow.skipped.on.ci", "serially", "non-serial", "A", "WIP", "Slow", "Serial", "Retry", "Allow.Skipped"];
/// Retry delays, in microseconds (one of them below a millisecond, one of them zero: no wait, but still a retry setting).
pub const DELAYS_US: &[u64] = &[0, 900, 2_000, 5_000, 12_000];

/// A delay for a tag or an option: one of the fixed ones, or - a quarter of the time - some number of
/// microseconds (1-80) in the range of the runner's own bookkeeping between re-queueing a retry and looking at
/// the queue again (a deadline that expires while the runner is looking).
pub fn pick_delay(r: &mut Rng) -> u64 {
    if r.chance(1, 4) { r.range(1, 80) as u64 } else { *r.pick(DELAYS_US) }
}

/// A delay as written in a tag.
pub fn delay_text(us: u64) -> String {
    if us % 1000 == 0 { format!("{}ms", us / 1000) } else { format!("{us}us") }
}

fn pct(r: &mut Rng, p: usize) -> bool {
    r.below(100) < p
}

struct Gen<'a> {
    r: Rng,
    p: &'a Profile,
    next_sc: u32,
    next_f: u32,
    next_r: u32,
    kw: u8,
    plan: HashMap<String, Vec<Behav>>,
    gates_on: bool,
}

impl Gen<'_> {
    fn behav_seq(&mut self, p_fail: usize) -> Vec<Behav> {
        // Behaviour of invocation 0..n (last repeats). Shapes: always pass;
        // fail^k then pass; always fail; random.
        let shape = self.r.below(100);
        let n = 4;
        let kinds = [PanicKind::String, PanicKind::Str, PanicKind::Custom, PanicKind::Int];
        let mut v = Vec::with_capacity(n);
        let failing = pct(&mut self.r, p_fail);
        let k = self.r.range(1, 3);
        for i in 0..n {
            let fail = failing
                && match shape {
                    0..=54 => i < k,  // fail^k then pass
                    55..=79 => true,  // always fails
                    _ => self.r.chance(1, 2),
                };
            let gb = if self.gates_on && pct(&mut self.r, self.p.p_gate) {
                self.r.range(1, 2) as u8
            } else {
                0
            };
            let ga = if self.gates_on && pct(&mut self.r, self.p.p_gate / 3) { 1 } else { 0 };
            v.push(Behav {
                gates_before: gb,
                gates_after: ga,
                outcome: if fail {
                    Outcome::Panic(*self.r.pick(&kinds))
                } else {
                    Outcome::Pass
                },
                logs_before: if pct(&mut self.r, self.p.p_logs) { self.r.range(1, 2) as u16 } else { 0 },
                // now and then a chatty step: a burst of log events within one poll
                logs_after: if self.p.p_logs > 0 && self.r.chance(1, 300) {
                    *self.r.pick(&[120u16, 257, 300, 520, 1100, 2100]) + self.r.below(9) as u16
                } else if pct(&mut self.r, self.p.p_logs) {
                    self.r.range(0, 2) as u16
                } else {
                    0
                },
                eager: fail && self.p.p_logs == 0 && self.r.chance(1, 4),
                deferred_logs: if !fail && self.p.p_logs > 0 && self.r.chance(1, 6) { 1 } else { 0 },
            });
        }
        v
    }

    fn step(&mut self, unit: String, label: &str) -> StepSpec {
        let kw = self.kw;
        self.kw = (self.kw + 1) % 3;
        let roll = self.r.below(100);
        let kind = if roll < self.p.p_nomatch {
            StepKind::NoMatch
        } else if roll < self.p.p_nomatch + self.p.p_ambig {
            StepKind::Ambiguous
        } else {
            StepKind::Run
        };
        let text = match kind {
            StepKind::Run => format!("step {label}"),
            StepKind::NoMatch => format!("nomatch {label}"),
            StepKind::Ambiguous => format!("ambig {label}"),
        };
        if kind == StepKind::Run {
            let b = self.behav_seq(self.p.p_fail_unit);
            self.plan.insert(unit.clone(), b);
        }
        StepSpec { kw, text, kind, unit, doc: None, table: None }
    }

    fn tags(&mut self, level: u8) -> Vec<String> {
        let mut t = Vec::new();
        if self.r.chance(1, 4) {
            t.push((*self.r.pick(PLAIN_TAGS)).to_owned());
        }
        // serial mostly on scenarios, sometimes on rule/feature
        let ps = if level == 0 { self.p.p_serial } else { self.p.p_serial / 4 };
        if pct(&mut self.r, ps) {
            t.push("serial".to_owned());
        }
        let pr = if level == 0 { self.p.p_retry_tag } else { self.p.p_retry_tag / 4 };
        if pct(&mut self.r, pr) {
            let n = if self.r.chance(1, 8) { 0 } else { self.r.range(1, 3) };
            let with_delay = pct(&mut self.r, self.p.p_delay);
            let d = delay_text(pick_delay(&mut self.r));
            t.push(match (self.r.below(2), with_delay) {
                (0, false) => "retry".to_owned(),
                (_, false) => format!("retry({n})"),
                (0, true) => format!("retry.after({d})"),
                (_, true) => format!("retry({n}).after({d})"),
            });
        }
        if self.r.chance(1, 12) {
            t.push("allow.skipped".to_owned());
        }
        t
    }

    fn scenario(&mut self) -> ScSpec {
        let uid = self.next_sc;
        self.next_sc += 1;
        let n = self.r.range(0, self.p.max_steps);
        let steps = (0..n)
            .map(|i| self.step(format!("S:s{uid}:{i}"), &format!("s{uid} i{i}")))
            .collect();
        let solo = self.r.chance(1, 6);
        let sc = ScSpec {
            uid,
            name: format!("sc s{uid}{}", if solo { " SOLO" } else { "" }),
            tags: self.tags(0),
            steps,
        };
        let hb = self.behav_seq(self.p.p_hook_fail);
        self.plan.insert(format!("HB:s{uid}"), hb);
        let ha = self.behav_seq(self.p.p_hook_fail);
        self.plan.insert(format!("HA:s{uid}"), ha);
        sc
    }

    fn feature(&mut self) -> FeatSpec {
        let uid = self.next_f;
        self.next_f += 1;
        let empty = pct(&mut self.r, self.p.p_empty);
        let nbg = if self.r.chance(1, 2) { self.r.range(0, self.p.max_bg) } else { 0 };
        let bg = (0..nbg)
            .map(|i| self.step(format!("B:f{uid}:{i}"), &format!("f{uid} b{i}")))
            .collect();
        let nsc = if empty { 0 } else { self.r.range(0, self.p.max_top_scen) };
        let scenarios = (0..nsc).map(|_| self.scenario()).collect();
        let nrules = if self.r.chance(1, 2) { self.r.range(0, self.p.max_rules) } else { 0 };
        let mut rules = Vec::new();
        for _ in 0..nrules {
            let ruid = self.next_r;
            self.next_r += 1;
            let rempty = empty || pct(&mut self.r, self.p.p_empty);
            let nrbg = if self.r.chance(1, 2) { self.r.range(0, self.p.max_bg) } else { 0 };
            let rbg = (0..nrbg)
                .map(|i| self.step(format!("B:r{ruid}:{i}"), &format!("r{ruid} b{i}")))
                .collect();
            let n = if rempty { 0 } else { self.r.range(1, self.p.max_rule_scen) };
            let scs = (0..n).map(|_| self.scenario()).collect();
            rules.push(RuleSpec {
                uid: ruid,
                name: format!("rule r{ruid}"),
                tags: self.tags(1),
                bg: rbg,
                scenarios: scs,
            });
        }
        FeatSpec {
            uid,
            name: format!("feat f{uid}"),
            tags: self.tags(2),
            bg,
            scenarios,
            rules,
            path: self.r.chance(2, 3).then(|| PathBuf::from(format!("/virt/f{uid}.feature"))),
        }
    }
}

const FILTERS: &[&str] = &["@a", "@b or @slow", "not @wip", "@a and not @b", "@serial or @a"];

pub fn generate(profile: &Profile, seed: u64, index: u64) -> CaseSpec {
    let mut root = Rng::new(seed.wrapping_mul(0x1000_0001).wrapping_add(index));
    let mut r = root.fork(1);
    let gates_on = !r.chance(1, 8); // some cases run fully synchronously
    let mut g = Gen {
        r: root.fork(2),
        p: profile,
        next_sc: 0,
        next_f: 0,
        next_r: 0,
        kw: 0,
        plan: HashMap::new(),
        gates_on,
    };
    let nf = r.range(1, profile.max_features);
    let mut items = Vec::new();
    let mut nerr = 0;
    for _ in 0..nf {
        if pct(&mut r, profile.p_parse_err) {
            items.push(if r.chance(1, 2) { Item::ErrParse(nerr) } else { Item::ErrExpand(nerr) });
            nerr += 1;
        }
        items.push(Item::Feat(g.feature()));
    }
    if pct(&mut r, profile.p_parse_err / 2) {
        items.push(Item::ErrParse(nerr));
    }
    let lazy = pct(&mut r, profile.p_lazy);
    let pend = (0..=items.len())
        .map(|_| {
            if !lazy || r.chance(1, 3) {
                Vec::new()
            } else {
                (0..r.range(1, 3))
                    .map(|_| if r.chance(1, 2) { Pend::SelfWake } else { Pend::Sched })
                    .collect()
            }
        })
        .collect();

    let mut cfg = Cfg::default();
    match r.below(4) {
        0 => cfg.cli_concurrency = *r.pick(profile.limits),
        1 => cfg.b_concurrency = Some(*r.pick(profile.limits)),
        2 => {
            cfg.cli_concurrency = *r.pick(profile.limits);
            cfg.b_concurrency = Some(*r.pick(profile.limits));
        }
        _ => {}
    }
    if pct(&mut r, profile.p_cfg_retry) {
        match r.below(3) {
            0 => cfg.cli_retry = Some(r.range(0, 3)),
            1 => cfg.b_retry = Some(r.range(0, 3)),
            _ => {
                cfg.cli_retry = Some(r.range(0, 3));
                cfg.b_retry = Some(r.range(0, 3));
            }
        }
    }
    if pct(&mut r, profile.p_delay) {
        match r.below(3) {
            0 => cfg.cli_retry_after_us = Some(pick_delay(&mut r)),
            1 => cfg.b_retry_after_us = Some(pick_delay(&mut r)),
            _ => {
                cfg.cli_retry_after_us = Some(pick_delay(&mut r));
                cfg.b_retry_after_us = Some(pick_delay(&mut r));
            }
        }
    }
    if pct(&mut r, profile.p_filter) {
        match r.below(3) {
            0 => cfg.cli_filter = Some((*r.pick(FILTERS)).to_owned()),
            1 => cfg.b_filter = Some((*r.pick(FILTERS)).to_owned()),
            _ => {
                cfg.cli_filter = Some((*r.pick(FILTERS)).to_owned());
                cfg.b_filter = Some((*r.pick(FILTERS)).to_owned());
            }
        }
    }
    if pct(&mut r, profile.p_ff) {
        match r.below(3) {
            0 => cfg.cli_ff = true,
            1 => cfg.b_ff = true,
            _ => {
                cfg.cli_ff = true;
                cfg.b_ff = true;
            }
        }
    }
    cfg.before_hook = pct(&mut r, profile.p_hook);
    cfg.after_hook = pct(&mut r, profile.p_hook);
    cfg.custom_which = pct(&mut r, profile.p_custom_which);

    // (no &'static str here: a token-less payload could not be attributed to a World::new call)
    let wkinds = [PanicKind::String, PanicKind::Int, PanicKind::Custom];
    let world_plan = (0..12)
        .map(|_| {
            if pct(&mut r, profile.p_world_fail) {
                if r.chance(1, 2) {
                    WorldBehav::Err
                } else if r.chance(1, 3) {
                    WorldBehav::EagerPanic(*r.pick(&wkinds))
                } else {
                    WorldBehav::Panic(*r.pick(&wkinds))
                }
            } else {
                WorldBehav::Ok
            }
        })
        .chain(std::iter::once(WorldBehav::Ok))
        .collect();

    let policy = match r.below(10) {
        0..=4 => Policy::Random,
        5 => Policy::Fifo,
        6 => Policy::Lifo,
        7 => Policy::StarveOne,
        _ => Policy::SerialLast,
    };

    // a resumed run: its own random stream, so that the other dimensions stay as they were
    if profile.p_resume > 0 {
        let mut r2 = Rng::new(seed.wrapping_mul(0x9E37_79B9).wrapping_add(index) ^ 0x5E5);
        if pct(&mut r2, profile.p_resume) {
            cfg.resume = true;
            for it in &mut items {
                let Item::Feat(f) = it else { continue };
                for sc in f.scenarios.iter_mut().chain(f.rules.iter_mut().flat_map(|r| r.scenarios.iter_mut())) {
                    if r2.chance(1, 2) {
                        sc.tags.push(format!("resumed.{}.{}", r2.range(1, 3), r2.range(0, 2)));
                    }
                }
            }
        }
    }

    // a wide run: one feature with more scenarios than the default limit of 64, all ready at once and
    // each parked in its only step, under an explicitly unlimited / the default / a small limit
    let mut plan = g.plan;
    let mut pend = pend;
    if profile.p_wide > 0 {
        let mut r5 = Rng::new(seed.wrapping_mul(0x51ED_270B).wrapping_add(index) ^ 0xA1DE);
        if pct(&mut r5, profile.p_wide) {
            // (a quarter of them on a larger scale: more scenarios than any batch size one might think of)
            let huge = r5.chance(1, 4);
            let n = if huge { r5.range(260, 320) } else { r5.range(66, 100) } as u32;
            let scenarios = (0..n)
                .map(|i| {
                    let unit = format!("S:s{i}:0");
                    plan.insert(unit.clone(), vec![Behav { gates_before: 1, ..Behav::PASS }]);
                    ScSpec {
                        uid: i,
                        name: format!("sc s{i}"),
                        tags: Vec::new(),
                        steps: vec![StepSpec { kw: (i % 3) as u8, text: format!("step s{i} i0"), kind: StepKind::Run, unit, doc: None, table: None }],
                    }
                })
                .collect();
            items = vec![Item::Feat(FeatSpec { uid: 0, name: "feat f0".into(), tags: Vec::new(), bg: Vec::new(), scenarios, rules: Vec::new(), path: Some("/virt/f0.feature".into()) })];
            pend = vec![Vec::new(), Vec::new()];
            cfg = Cfg::default();
            if huge {
                match r5.below(5) {
                    0 => cfg.b_concurrency = Some(None),
                    1 => cfg.b_concurrency = Some(Some(usize::MAX)),
                    2 => cfg.cli_concurrency = Some(usize::MAX),
                    3 => cfg.b_concurrency = Some(Some(r5.range(257, 300))),
                    _ => cfg.cli_concurrency = Some(r5.range(257, 300)),
                }
            } else {
            match r5.below(7) {
                0 => cfg.b_concurrency = Some(None),
                1 => {}
                2 => cfg.cli_concurrency = Some(r5.range(2, 70)),
                // limits above the default one
                3 => cfg.b_concurrency = Some(Some(r5.range(65, 88))),
                4 => cfg.cli_concurrency = Some(r5.range(65, 88)),
                // ... and "as many as there are", spelled as a number
                5 => cfg.b_concurrency = Some(Some(usize::MAX)),
                _ => cfg.cli_concurrency = Some(usize::MAX),
            }
            }
        }
    }

    CaseSpec {
        items,
        pend,
        cfg,
        plan,
        world_plan,
        world_gates: if gates_on && r.chance(1, 3) { 1 } else { 0 },
        policy,
        sched_seed: r.next(),
        sched_sleep_pct: if pct(&mut r, profile.p_sleep) { 30 } else { 0 },
        sched_multi_pct: {
            let mut r3 = Rng::new(seed.wrapping_mul(0x2545_F491).wrapping_add(index) ^ 0xB0B);
            if r3.chance(1, 4) { 50 } else { 0 }
        },
        profile: profile.name.to_owned(),
    }
}

// ---------------------------------------------------------------------------
// Conversion to gherkin values.

fn lc(line: usize) -> gherkin::LineCol {
    gherkin::LineCol { line, col: 3 }
}

fn span(line: usize) -> gherkin::Span {
    gherkin::Span { start: line * 40, end: line * 40 + 10 }
}

fn g_step(s: &StepSpec, line: &mut usize) -> gherkin::Step {
    *line += 1;
    let (keyword, ty) = match s.kw {
        0 => ("Given", gherkin::StepType::Given),
        1 => ("When", gherkin::StepType::When),
        _ => ("Then", gherkin::StepType::Then),
    };
    gherkin::Step {
        keyword: format!("{keyword} "),
        ty,
        value: s.text.clone(),
        docstring: s.doc.clone(),
        table: s.table.as_ref().map(|rows| gherkin::Table { rows: rows.clone(), span: span(*line), position: lc(*line) }),
        span: span(*line),
        position: lc(*line),
    }
}

fn g_bg(bg: &[StepSpec], line: &mut usize) -> Option<gherkin::Background> {
    if bg.is_empty() {
        return None;
    }
    *line += 1;
    let l = *line;
    Some(gherkin::Background {
        keyword: "Background".into(),
        name: String::new(),
        description: None,
        steps: bg.iter().map(|s| g_step(s, line)).collect(),
        span: span(l),
        position: lc(l),
    })
}

fn g_scenario(s: &ScSpec, line: &mut usize) -> gherkin::Scenario {
    *line += 1;
    let l = *line;
    gherkin::Scenario {
        keyword: "Scenario".into(),
        name: s.name.clone(),
        description: None,
        steps: s.steps.iter().map(|st| g_step(st, line)).collect(),
        examples: Vec::new(),
        tags: s.tags.clone(),
        span: span(l),
        position: lc(l),
    }
}

pub fn to_gherkin(f: &FeatSpec) -> gherkin::Feature {
    let mut line = 1;
    let background = g_bg(&f.bg, &mut line);
    let mut scenarios: Vec<gherkin::Scenario> = f.scenarios.iter().map(|s| g_scenario(s, &mut line)).collect();
    // every 4th feature delivers its top-level scenarios as what the stock parser makes of ONE outline
    // with an Examples block per row: the rows share the outline's span, each carries its
    // own block's tags among its tags, and - clones of the outline - all of them carry all the blocks
    if f.uid % 4 == 1 && scenarios.len() >= 2 {
        let outline_span = scenarios[0].span;
        let blocks: Vec<gherkin::Examples> = scenarios
            .iter()
            .map(|s| gherkin::Examples { keyword: "Examples".into(), name: None, description: None, table: None, tags: s.tags.clone(), span: s.span, position: s.position })
            .collect();
        for s in &mut scenarios {
            s.span = outline_span;
            s.examples = blocks.clone();
        }
    }
    let rules = f
        .rules
        .iter()
        .map(|r| {
            line += 1;
            let l = line;
            gherkin::Rule {
                keyword: "Rule".into(),
                name: r.name.clone(),
                description: None,
                background: g_bg(&r.bg, &mut line),
                scenarios: r.scenarios.iter().map(|s| g_scenario(s, &mut line)).collect(),
                tags: r.tags.clone(),
                span: span(l),
                position: lc(l),
            }
        })
        .collect();
    gherkin::Feature {
        keyword: "Feature".into(),
        name: f.name.clone(),
        description: None,
        background,
        scenarios,
        rules,
        tags: f.tags.clone(),
        span: span(1),
        position: lc(1),
        path: f.path.clone(),
    }
}

impl CaseSpec {
    pub fn features(&self) -> impl Iterator<Item = &FeatSpec> {
        self.items.iter().filter_map(|i| match i {
            Item::Feat(f) => Some(f),
            _ => None,
        })
    }

    /// (feature, rule, scenario) triples in parser order.
    pub fn scenarios(&self) -> Vec<(&FeatSpec, Option<&RuleSpec>, &ScSpec)> {
        let mut v = Vec::new();
        for f in self.features() {
            for s in &f.scenarios {
                v.push((f, None, s));
            }
            for r in &f.rules {
                for s in &r.scenarios {
                    v.push((f, Some(r), s));
                }
            }
        }
        v
    }

    pub fn is_lazy(&self) -> bool {
        self.pend.iter().any(|p| !p.is_empty())
    }

    /// Compact human-readable description (for samples / replays).
    pub fn describe(&self) -> serde_json::Value {
        use serde_json::json;
        let step = |s: &StepSpec| format!("{}:{}", ["G", "W", "T"][s.kw as usize], s.text);
        let sc = |s: &ScSpec| json!({"name": s.name, "tags": s.tags, "steps": s.steps.iter().map(step).collect::<Vec<_>>()});
        let items: Vec<_> = self
            .items
            .iter()
            .zip(&self.pend)
            .map(|(it, p)| match it {
                Item::Feat(f) => json!({
                    "feature": f.name, "tags": f.tags, "path": f.path,
                    "pending_before": format!("{p:?}"),
                    "background": f.bg.iter().map(step).collect::<Vec<_>>(),
                    "scenarios": f.scenarios.iter().map(sc).collect::<Vec<_>>(),
                    "rules": f.rules.iter().map(|r| json!({
                        "rule": r.name, "tags": r.tags,
                        "background": r.bg.iter().map(step).collect::<Vec<_>>(),
                        "scenarios": r.scenarios.iter().map(sc).collect::<Vec<_>>()})).collect::<Vec<_>>(),
                }),
                Item::ErrParse(n) => json!({"parser_error": format!("Parsing#{n}")}),
                Item::ErrExpand(n) => json!({"parser_error": format!("ExampleExpansion#{n}")}),
            })
            .collect();
        let failing: Vec<_> = {
            let mut v: Vec<_> = self
                .plan
                .iter()
                .filter(|(_, b)| b.iter().any(|b| b.outcome != Outcome::Pass))
                .map(|(k, b)| {
                    format!(
                        "{k}:{}",
                        b.iter().map(|b| if b.outcome == Outcome::Pass { 'p' } else { 'F' }).collect::<String>()
                    )
                })
                .collect();
            v.sort();
            v
        };
        json!({
            "profile": self.profile,
            "items": items,
            "cfg": format!("{:?}", self.cfg),
            "failing_units": failing,
            "world_plan": format!("{:?}", self.world_plan.iter().take(6).collect::<Vec<_>>()),
            "policy": format!("{:?}", self.policy),
        })
    }
}

pub fn dur(us: Option<u64>) -> Option<Duration> {
    us.map(Duration::from_micros)
}
