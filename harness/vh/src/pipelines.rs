//! C01: the run verdict of every built-in stats pipeline, compared with the
//! verdict the property statement assigns to the raw event stream.

use std::{cell::RefCell, io, rc::Rc};

use cucumber::{
    Writer, WriterExt as _, cli,
    writer::{self, Coloring, Stats},
};
use futures::executor::block_on;
use serde_json::json;

use crate::{
    analysis::Analysis,
    evrec::{Ev, HookEv, Item, ScEv, StepEv},
    oracles_run::Ctx,
    rng::fnv,
    world::TW,
};

/// In-memory sink. With a chunk size it accepts at most that many bytes per `write()` call, as a
/// socket, a pipe or a fixed buffer may (the `io::Write` contract allows short writes).
#[derive(Clone, Default)]
pub struct SharedBuf(pub Rc<RefCell<Vec<u8>>>, pub Option<usize>);

impl io::Write for SharedBuf {
    fn write(&mut self, buf: &[u8]) -> io::Result<usize> {
        let n = self.1.map_or(buf.len(), |c| c.min(buf.len()));
        self.0.borrow_mut().extend_from_slice(&buf[..n]);
        Ok(n)
    }
    fn flush(&mut self) -> io::Result<()> {
        Ok(())
    }
}

impl SharedBuf {
    pub fn chunked(n: usize) -> Self {
        SharedBuf(Rc::default(), Some(n))
    }
    pub fn text(&self) -> String {
        String::from_utf8_lossy(&self.0.borrow()).into_owned()
    }
}

pub fn feed<Wr: Writer<TW>>(w: &mut Wr, items: &[Item], cli: &Wr::Cli) {
    block_on(async {
        for it in items {
            w.handle_event(it.clone(), cli).await;
        }
    });
}

/// Like `feed`, but from input `at` on the stream goes to a clone of the writer (the original is
/// dropped): a clone taken mid-run is the same writer in the same state.
pub fn feed_cloning<Wr: Writer<TW> + Clone>(w: &mut Wr, items: &[Item], cli: &Wr::Cli, at: Option<usize>) {
    block_on(async {
        for (i, it) in items.iter().enumerate() {
            if at == Some(i) {
                let copy = w.clone();
                drop(std::mem::replace(w, copy));
            }
            w.handle_event(it.clone(), cli).await;
        }
    });
}

pub fn basic_cli() -> writer::basic::Cli {
    writer::basic::Cli { verbose: 0, color: Coloring::Never }
}

/// Verdict the statement assigns: failed iff a parser error was delivered or
/// some attempt failed finally; skipped counts only under fail_on_skipped for
/// scenarios without inherited @allow.skipped.
pub fn expected_verdict(an: &Analysis<'_>, fail_on_skipped: bool) -> bool {
    let parse_err = an.out.evs.iter().any(|r| matches!(r.ev, Ev::ParseErr(_)));
    let final_fail = an.attempts.iter().any(|a| a.is_final_failure());
    let skipped = fail_on_skipped
        && an.attempts.iter().any(|a| a.skipped && an.sc.get(&a.sc_uid).is_some_and(|i| !i.allow_skipped));
    parse_err || final_fail || skipped
}

/// The rule the code implements today (any Hook::Failed counts), used only to
/// classify a mismatch as the known finding.
fn legacy_verdict(an: &Analysis<'_>, fail_on_skipped: bool) -> bool {
    expected_verdict(an, fail_on_skipped)
        || an.out.evs.iter().any(|r| matches!(r.is_sc(), Some(ScEv::Hook { ev: HookEv::Failed { .. }, .. })))
}

fn libtest_suite_verdict(text: &str) -> Option<bool> {
    text.lines().rev().find_map(|l| {
        let v: serde_json::Value = serde_json::from_str(l).ok()?;
        if v.get("type")?.as_str()? != "suite" {
            return None;
        }
        match v.get("event")?.as_str()? {
            "ok" => Some(false),
            "failed" => Some(true),
            _ => None,
        }
    })
}

pub fn check_c01(cx: &mut Ctx<'_, '_>) {
    let an = cx.an;
    let items = &an.out.items;
    let bcli = basic_cli();
    let lcli = writer::libtest::Cli::default();
    let mut results: Vec<(&'static str, bool, bool)> = Vec::new(); // (pipeline, fail_on_skipped, verdict)

    // Summarize<Normalize<Basic>>
    let mut w = writer::Basic::new::<TW>(SharedBuf::default(), Coloring::Never, 0).summarized();
    feed(&mut w, items, &bcli);
    results.push(("Summarize<Normalize<Basic>>", false, Stats::<TW>::execution_has_failed(&w)));

    // ... under FailOnSkipped
    let mut w = writer::Basic::new::<TW>(SharedBuf::default(), Coloring::Never, 0).summarized().fail_on_skipped();
    feed(&mut w, items, &bcli);
    results.push(("FailOnSkipped<Summarize<Normalize<Basic>>>", true, Stats::<TW>::execution_has_failed(&w)));

    // ... under Repeat::failed / Repeat::skipped
    let mut w = writer::Basic::new::<TW>(SharedBuf::default(), Coloring::Never, 0).summarized().repeat_failed::<TW>();
    feed(&mut w, items, &bcli);
    results.push(("Repeat::failed<Summarize<..>>", false, Stats::<TW>::execution_has_failed(&w)));
    let mut w = writer::Basic::new::<TW>(SharedBuf::default(), Coloring::Never, 0)
        .summarized()
        .repeat_skipped::<TW>()
        .fail_on_skipped();
    feed(&mut w, items, &bcli);
    results.push(("FailOnSkipped<Repeat::skipped<Summarize<..>>>", true, Stats::<TW>::execution_has_failed(&w)));

    // the pipeline for an already ordered stream: AssertNormalized<Summarize<Basic>> (fed the
    // normalized stream), and the pass-through wrappers that are not their own writers of verdicts:
    // discard_arbitrary_writes / discard_stats_writes keep what the inner writer says
    {
        let norm = crate::recw::normalize(items);
        let mut w = writer::Basic::raw(SharedBuf::default(), Coloring::Never, 0).summarized().assert_normalized();
        feed(&mut w, &norm, &bcli);
        results.push(("AssertNormalized<Summarize<Basic>>", false, Stats::<TW>::execution_has_failed(&w)));
        // the other order of the two wrappers: Normalize outermost, over Summarize
        let mut w = writer::Basic::raw(SharedBuf::default(), Coloring::Never, 0).summarized().normalized();
        feed(&mut w, items, &bcli);
        results.push(("Normalize<Summarize<Basic>>", false, Stats::<TW>::execution_has_failed(&w)));
        let mut w = writer::Basic::new::<TW>(SharedBuf::default(), Coloring::Never, 0).summarized().discard_arbitrary_writes();
        feed(&mut w, items, &bcli);
        results.push(("discard::Arbitrary<Summarize<..>>", false, Stats::<TW>::execution_has_failed(&w)));
    }

    // Normalize<Libtest>
    let buf = SharedBuf::default();
    let mut w = writer::Libtest::<TW, SharedBuf>::new(buf.clone());
    feed(&mut w, items, &lcli);
    let lt = Stats::<TW>::execution_has_failed(&w);
    results.push(("Normalize<Libtest>", false, lt));
    match libtest_suite_verdict(&buf.text()) {
        Some(v) => results.push(("Normalize<Libtest> suite line", false, v)),
        None => cx.viol("C01", "verdict:no-suite-line", "libtest output has no suite result line".into(), json!(null)),
    }

    // FailOnSkipped<Normalize<Libtest>>
    let buf = SharedBuf::default();
    let mut w = writer::Libtest::<TW, SharedBuf>::new(buf.clone()).fail_on_skipped();
    feed(&mut w, items, &lcli);
    results.push(("FailOnSkipped<Normalize<Libtest>>", true, Stats::<TW>::execution_has_failed(&w)));
    if let Some(v) = libtest_suite_verdict(&buf.text()) {
        results.push(("FailOnSkipped<Normalize<Libtest>> suite line", true, v));
    }

    // FailOnSkipped<Tee<Summarize.., Libtest>>
    let mut w = writer::Tee::new(
        writer::Basic::new::<TW>(SharedBuf::default(), Coloring::Never, 0).summarized(),
        writer::Libtest::<TW, SharedBuf>::new(SharedBuf::default()),
    )
    .fail_on_skipped();
    feed(&mut w, items, &cli::Compose { left: bcli, right: lcli.clone() });
    results.push(("FailOnSkipped<Tee<Summarize.., Libtest>>", true, Stats::<TW>::execution_has_failed(&w)));

    // Tee(Summarize.., Libtest)
    let mut w = writer::Tee::new(
        writer::Basic::new::<TW>(SharedBuf::default(), Coloring::Never, 0).summarized(),
        writer::Libtest::<TW, SharedBuf>::new(SharedBuf::default()),
    );
    let tcli = cli::Compose { left: bcli, right: lcli.clone() };
    feed(&mut w, items, &tcli);
    results.push(("Tee<Summarize.., Libtest>", false, Stats::<TW>::execution_has_failed(&w)));

    // Or(Summarize.., Libtest) with constant predicates, as `Libtest::or()` uses it
    // (a predicate splitting one stream between the two would starve each side
    // of the run-level events it needs - not a pipeline the crate builds).
    for (name, mode) in [("Or<..> always-left", 0u8), ("Or<..> always-right", 1)] {
        let mut w = writer::Or::new(
            writer::Basic::new::<TW>(SharedBuf::default(), Coloring::Never, 0).summarized(),
            writer::Libtest::<TW, SharedBuf>::new(SharedBuf::default()),
            move |_: &Item, _: &cli::Compose<writer::basic::Cli, writer::libtest::Cli>| mode == 0,
        );
        feed(&mut w, items, &tcli);
        results.push((name, false, Stats::<TW>::execution_has_failed(&w)));
    }

    let any_failureish = an.out.evs.iter().any(|r| {
        matches!(r.ev, Ev::ParseErr(_))
            || matches!(
                r.is_sc(),
                Some(ScEv::Step { ev: StepEv::Failed { .. } | StepEv::Skipped, .. } | ScEv::Hook { ev: HookEv::Failed { .. }, .. })
            )
    });
    for (name, fos, actual) in &results {
        let exp = expected_verdict(an, *fos);
        if any_failureish {
            let shape: Vec<String> = an
                .attempts
                .iter()
                .map(|a| format!("{}{}{}{:?}", u8::from(a.step_failed), u8::from(a.hook_failed), u8::from(a.skipped), a.retries.map(|r| r.1.min(1))))
                .collect();
            let _ = name;
            cx.t.nontrivial("C01", fnv(&shape.join(",")));
        }
        if *actual != exp {
            let legacy = legacy_verdict(an, *fos);
            let sig = if !exp && *actual && legacy {
                "verdict:hook-failed-in-nonfinal-attempt".to_owned()
            } else {
                format!("verdict:{name}")
            };
            cx.viol(
                "C01",
                &sig,
                format!("{name} says failed={actual}, the statement gives failed={exp} (fail_on_skipped={fos})"),
                json!({"pipeline": name}),
            );
        }
    }
    cx.t.count("c01.pipeline_verdicts", results.len() as u64);
}


/// C01, facade part: `Cucumber::custom(..).run_and_exit()` panics iff the
/// statement says the run failed. The case is executed a second time without
/// gates through the facade (eager parser, `block_on`).
pub fn check_run_and_exit(case: &crate::spec::CaseSpec, t: &mut crate::report::Tally, idx: u64) {
    use cucumber::{Cucumber, cli as ccli, runner};
    use crate::{exec, recw::Collect, spec, world};
    let mut plain = case.clone();
    for v in plain.plan.values_mut() {
        for b in v.iter_mut() {
            b.gates_before = 0;
            b.gates_after = 0;
        }
    }
    plain.world_gates = 0;
    for p in plain.pend.iter_mut() {
        p.clear();
    }
    world::reset(plain.plan.clone(), plain.world_plan.clone(), 0);
    exec::install_sentinel_hook();
    let (parser, _shared) = exec::parser_for(&plain);
    let sink = Collect::default();
    let fos = idx % 2 == 0;
    let opts = ccli::Opts::<ccli::Empty, runner::basic::Cli, ccli::Compose<writer::basic::Cli, ccli::Empty>, ccli::Empty> {
        runner: exec::runner_cli(&plain.cfg),
        writer: ccli::Compose { left: basic_cli(), right: ccli::Empty },
        ..Default::default()
    };
    macro_rules! go {
        ($r:expr) => {{
            let w = writer::Tee::new(writer::Basic::new::<TW>(SharedBuf::default(), Coloring::Never, 0).summarized(), sink.clone());
            let cuc = Cucumber::<TW, exec::FacadeParser, (), _, _, ccli::Empty>::custom(exec::FacadeParser(parser), $r, w).with_cli(opts);
            exec::IN_RUN.store(true, std::sync::atomic::Ordering::SeqCst);
            let r = if fos {
                std::panic::catch_unwind(std::panic::AssertUnwindSafe(|| block_on(cuc.fail_on_skipped().run_and_exit(()))))
            } else {
                std::panic::catch_unwind(std::panic::AssertUnwindSafe(|| block_on(cuc.run_and_exit(()))))
            };
            exec::IN_RUN.store(false, std::sync::atomic::Ordering::SeqCst);
            r
        }};
    }
    let base = exec::base_runner(&plain.cfg);
    let res = match (plain.cfg.before_hook, plain.cfg.after_hook) {
        (true, true) => go!(base.before(world::before_hook).after(world::after_hook)),
        (true, false) => go!(base.before(world::before_hook)),
        (false, true) => go!(base.after(world::after_hook)),
        (false, false) => go!(base),
    };
    // the runner replaced the process panic hook during the run; reinstall ours
    exec::install_sentinel_hook();
    let items = sink.0.borrow().clone();
    // under fail_on_skipped the collected events are already transformed; the
    // statement's verdict over them needs no further rule for skipped steps
    let out = exec::RunOutput::from_items(items);
    let an = Analysis::new(&plain, &out);
    // a not-found failure (skipped step turned into a failure by fail_on_skipped) is final
    // whatever its retry counter says: the runner never retries it
    let not_found = out.evs.iter().any(|r| matches!(r.is_sc(), Some(ScEv::Step { ev: StepEv::Failed { err: crate::evrec::StepErr::NotFound, .. }, .. })));
    let exp = expected_verdict(&an, false) || not_found;
    let panicked = res.is_err();
    let msg = res.err().map(|p| format!("{:?}", crate::evrec::payload_of(&std::sync::Arc::from(p))));
    t.count("c01.run_and_exit_runs", 1);
    if out.evs.last().map(|r| &r.ev) != Some(&Ev::Finished) {
        t.count("c01.run_and_exit_incomplete", 1);
        return;
    }
    if panicked != exp {
        t.violation(
            "C01",
            "verdict:run_and_exit",
            format!("run_and_exit() {} (message {msg:?}) but the statement gives failed={exp} (fail_on_skipped={fos})", if panicked { "panicked" } else { "returned normally" }),
            idx,
            json!({"case": plain.describe(), "stream": crate::evrec::render(&out.evs)}),
        );
    }
    let _ = spec::dur(None);
}
