//! Synthetic event streams: random forests of features / rules / scenarios /
//! retry attempts, linearized either sequentially or as a random topological
//! interleaving of their happened-before order (also interleavings that
//! `runner::Basic` never emits but the Runner contract allows).
//!
//! Every event carries a unique token in its `at` timestamp (nanoseconds since
//! the epoch), so a recording writer can tell exactly which input event it got.

use std::{
    sync::Arc,
    time::{Duration, SystemTime},
};

use cucumber::{
    Event,
    event::{self, Cucumber, HookType, Info, Retries, Scenario, Source},
    gherkin, step,
};
use regex::Regex;

use crate::{
    evrec::Item,
    exec,
    rng::Rng,
    spec::{self, FeatSpec, PanicKind, ScSpec},
    world::{Boom, STATIC_MSGS, TW},
};

#[derive(Clone, Debug, PartialEq, Eq)]
pub enum Kind {
    RunStarted,
    ParsingFinished,
    ParseErr,
    RunFinished,
    FeatStarted,
    FeatFinished,
    RuleStarted,
    RuleFinished,
    Sc,
}

/// Structural position of one generated event.
#[derive(Clone, Debug)]
pub struct Meta {
    pub token: u64,
    pub kind: Kind,
    pub f: Option<usize>,
    pub r: Option<usize>,
    /// (scenario index in forest, attempt index)
    pub sc: Option<(usize, usize)>,
}

pub struct SynthStream {
    pub items: Vec<Item>,
    pub meta: Vec<Meta>,
    pub sequential: bool,
    pub n_features: usize,
    pub n_rules: usize,
    pub n_scenarios: usize,
    pub n_attempts: usize,
    pub feats: Vec<FeatSpec>,
}

pub fn stamp(mut ev: Event<Cucumber<TW>>, token: u64) -> Event<Cucumber<TW>> {
    ev.at = SystemTime::UNIX_EPOCH + Duration::from_nanos(token + 1);
    ev
}

pub fn token_of(item: &Item) -> Option<u64> {
    match item {
        Ok(ev) => ev.at.duration_since(SystemTime::UNIX_EPOCH).ok().map(|d| d.as_nanos() as u64 - 1),
        Err(_) => None,
    }
}

pub fn info(kind: PanicKind, tok: u64) -> Info {
    match kind {
        PanicKind::String => Arc::new(format!("boom#{tok}# <&> \"quoted\" 'x' é")),
        PanicKind::Str => Arc::new(STATIC_MSGS[(tok % 8) as usize]),
        PanicKind::Custom => Arc::new(Boom(tok)),
        PanicKind::Int => Arc::new(tok as i64),
    }
}

struct ScPlan {
    f: usize,
    r: Option<usize>,
    src: Source<gherkin::Scenario>,
    /// Events of all attempts, in order, already wrapped for this scenario.
    /// (taken out, not cloned, when emitted: the stream must not depend on the events' `Clone`)
    attempts: Vec<Vec<std::cell::Cell<Option<event::RetryableScenario<TW>>>>>,
}

#[derive(Clone, Copy)]
pub struct SynthCfg {
    pub hooks_pct: usize,
    pub fail_pct: usize,
    pub skip_pct: usize,
    pub retry_pct: usize,
    pub logs: bool,
    pub not_found: bool,
    pub parse_errs: bool,
    /// Rules (and features) without any scenario still get their Started / Finished bracket:
    /// `runner::Basic` never does that, the ordering contract does not forbid it.
    pub empty_brackets: bool,
}

impl Default for SynthCfg {
    fn default() -> Self {
        SynthCfg { hooks_pct: 50, fail_pct: 35, skip_pct: 15, retry_pct: 45, logs: true, not_found: false, parse_errs: true, empty_brackets: false }
    }
}

fn attempt_word(
    r: &mut Rng,
    steps: &[(Source<gherkin::Step>, bool)],
    retries: Option<Retries>,
    must_fail: bool,
    cfg: &SynthCfg,
    before: bool,
    after: bool,
    tok: &mut u64,
) -> Vec<event::RetryableScenario<TW>> {
    // capture locations as a definition's regex would produce them for the step's text: flat,
    // nested (inner group ending before / with the outer one), optional and non-participating groups
    thread_local! {
        static POOL: Vec<Regex> = [
            "^(.*)$",
            r"^(\S+) (.*)$",
            r"^((\S+) \S+)(.*)$",
            r"^(\S+( \S+)?)(.*)$",
            r"^(zzz)?(\S+) ((\S+) ?(.*))$",
            r"^\S+ (\S+)",
            r"^(((\S+)) )",
        ]
        .iter()
        .map(|p| Regex::new(p).unwrap())
        .collect();
    }
    let caps_for = |r: &mut Rng, text: &str| -> regex::CaptureLocations {
        POOL.with(|pool| {
            let first = r.below(pool.len());
            for k in 0..pool.len() {
                let re = &pool[(first + k) % pool.len()];
                let mut locs = re.capture_locations();
                if re.captures_read(&mut locs, text).is_some() {
                    return locs;
                }
            }
            // nothing matched (cannot happen with `^(.*)$` for single-line texts): unfilled locations
            pool[0].capture_locations()
        })
    };
    let mut w: Vec<Scenario<TW>> = vec![Scenario::Started];
    let world = || Some(Arc::new(TW { id: 9000, counter: 3 }));
    let kinds = [PanicKind::String, PanicKind::Str, PanicKind::Custom, PanicKind::Int];
    let mut failed = false;
    let mut nt = || {
        *tok += 1;
        *tok
    };
    if before {
        w.push(Scenario::hook_started(HookType::Before));
        if must_fail && r.chance(1, 5) {
            w.push(Scenario::hook_failed(HookType::Before, world(), info(*r.pick(&kinds), nt())));
            failed = true;
        } else {
            w.push(Scenario::hook_passed(HookType::Before));
        }
    }
    if !failed {
        // where does the scenario stop?
        let outcome = if must_fail {
            if r.chance(1, 4) && after { 3 } else { 1 }
        } else {
            let x = r.below(100);
            if x < cfg.skip_pct { 2 } else { 0 }
        };
        // 0 = all pass, 1 = some step fails, 2 = some step skipped, 3 = all pass but after hook fails
        let stop = if steps.is_empty() { 0 } else { r.below(steps.len()) };
        for (i, (st, bg)) in steps.iter().enumerate() {
            let mk = |e: event::Step<TW>| {
                if *bg { Scenario::Background(st.clone(), e) } else { Scenario::Step(st.clone(), e) }
            };
            w.push(mk(event::Step::Started));
            if cfg.logs && r.chance(1, 6) {
                // (some messages have several lines, an empty one among them, and some are long)
                let n = nt();
                w.push(Scenario::Log(match n % 4 {
                    0 => format!("log line {n}\n\nlog line {n} goes on after an empty line\n"),
                    1 => format!("log line {n} {}\n", "with a long tail of words that will not fit into a narrow terminal row ".repeat(1 + (n % 2) as usize)),
                    _ => format!("log line {n}\n"),
                }));
            }
            if i == stop && outcome == 1 {
                let err = if cfg.not_found && r.chance(1, 4) {
                    event::StepError::NotFound
                } else if r.chance(1, 5) {
                    event::StepError::AmbiguousMatch(step::AmbiguousMatchError {
                        possible_matches: vec![
                            (Regex::new("^a(.*)$").unwrap().into(), None),
                            (Regex::new("^a.*$").unwrap().into(), Some(step::Location { path: "src/steps.rs", line: 7, column: 1 })),
                        ],
                    })
                } else {
                    event::StepError::Panic(info(*r.pick(&kinds), nt()))
                };
                let nf = matches!(err, event::StepError::NotFound);
                w.push(mk(event::Step::Failed(
                    (!nf).then(|| caps_for(r, &st.value)),
                    None,
                    if nf { None } else { world() },
                    err,
                )));
                failed = true;
                break;
            }
            if i == stop && outcome == 2 {
                w.push(mk(event::Step::Skipped));
                break;
            }
            w.push(mk(event::Step::Passed(caps_for(r, &st.value), None)));
        }
        if steps.is_empty() && outcome == 1 && !after {
            // nothing can fail in an empty scenario without hooks: leave it passing
        }
        if after {
            w.push(Scenario::hook_started(HookType::After));
            // (after a failed or a skipped step the after hook still runs, and may fail as well)
            let hook_fails = outcome == 3 || (must_fail && !failed) || (!must_fail && r.below(100) < 6) || (must_fail && failed && r.chance(1, 6));
            if hook_fails {
                w.push(Scenario::hook_failed(HookType::After, world(), info(*r.pick(&kinds), nt())));
            } else {
                w.push(Scenario::hook_passed(HookType::After));
            }
        }
    } else if after {
        w.push(Scenario::hook_started(HookType::After));
        w.push(Scenario::hook_passed(HookType::After));
    }
    w.push(Scenario::Finished);
    w.into_iter().map(|e| e.with_retries(retries)).collect()
}

fn word_failed(w: &[event::RetryableScenario<TW>]) -> bool {
    w.iter().any(|e| {
        matches!(
            &e.event,
            Scenario::Hook(_, event::Hook::Failed(..))
                | Scenario::Step(_, event::Step::Failed(..))
                | Scenario::Background(_, event::Step::Failed(..))
        )
    })
}

/// Builds a synthetic stream. `interleave` = random topological order,
/// otherwise sequential (already normalized).
pub fn generate(seed: u64, index: u64, cfg: SynthCfg, interleave: bool, prof: &spec::Profile) -> SynthStream {
    generate_with(seed, index, cfg, interleave, prof, |_, _| {})
}

pub fn generate_with(
    seed: u64,
    index: u64,
    cfg: SynthCfg,
    interleave: bool,
    prof: &spec::Profile,
    tweak: impl FnOnce(&mut Vec<FeatSpec>, &mut Rng),
) -> SynthStream {
    let case = spec::generate(prof, seed ^ 0x5EED, index);
    let mut feats: Vec<FeatSpec> = case.features().cloned().collect();
    tweak(&mut feats, &mut Rng::new(seed ^ index.wrapping_mul(0x9E37)));
    let mut r = Rng::new(seed.wrapping_mul(77).wrapping_add(index));
    let mut tok = 1_000_000u64;
    let before = r.below(100) < cfg.hooks_pct;
    let after = r.below(100) < cfg.hooks_pct;

    let mut f_src: Vec<Source<gherkin::Feature>> = Vec::new();
    let mut r_src: Vec<(usize, Source<gherkin::Rule>)> = Vec::new();
    let mut plans: Vec<ScPlan> = Vec::new();
    for (fi, f) in feats.iter().enumerate() {
        let gf = spec::to_gherkin(f);
        let fs = Source::new(gf.clone());
        f_src.push(fs.clone());
        let bg_steps = |g: &Option<gherkin::Background>| -> Vec<(Source<gherkin::Step>, bool)> {
            g.iter().flat_map(|b| b.steps.iter().map(|s| (Source::new(s.clone()), true))).collect()
        };
        let fbg = bg_steps(&gf.background);
        let mk_sc = |gs: &gherkin::Scenario, _spec: &ScSpec, ri: Option<usize>, rbg: &[(Source<gherkin::Step>, bool)], r: &mut Rng, tok: &mut u64| {
            let mut steps = fbg.clone();
            steps.extend(rbg.iter().cloned());
            steps.extend(gs.steps.iter().map(|s| (Source::new(s.clone()), false)));
            let budget = if r.below(100) < cfg.retry_pct { Some(r.range(0, 3)) } else { None };
            let n_fail = budget.map_or(0, |b| if r.below(100) < cfg.fail_pct + 20 { r.range(0, b) } else { 0 });
            let mut attempts = Vec::new();
            for k in 0..=n_fail {
                let retries = budget.map(|b| Retries { current: k, left: b - k });
                let last = k == n_fail;
                let must_fail = !last || r.below(100) < cfg.fail_pct;
                let mut w = attempt_word(r, &steps, retries, must_fail, &cfg, before, after, tok);
                if !last && !word_failed(&w) {
                    // an empty scenario without hooks cannot fail: stop retrying here
                    attempts.push(std::mem::take(&mut w));
                    break;
                }
                let f = word_failed(&w);
                // a not-found failure is a skipped step turned into a failure by
                // a writer: the runner never retries such an attempt
                let nf = w.iter().any(|e| {
                    matches!(
                        &e.event,
                        Scenario::Step(_, event::Step::Failed(_, _, _, event::StepError::NotFound))
                            | Scenario::Background(_, event::Step::Failed(_, _, _, event::StepError::NotFound))
                    )
                }) && !w.iter().any(|e| matches!(&e.event, Scenario::Hook(_, event::Hook::Failed(..))));
                attempts.push(w);
                if !f || nf {
                    break;
                }
            }
            let attempts = attempts.into_iter().map(|w: Vec<event::RetryableScenario<TW>>| w.into_iter().map(|e| std::cell::Cell::new(Some(e))).collect()).collect();
            ScPlan { f: fi, r: ri, src: Source::new(gs.clone()), attempts }
        };
        for (gs, s) in gf.scenarios.iter().zip(&f.scenarios) {
            let p = mk_sc(gs, s, None, &[], &mut r, &mut tok);
            plans.push(p);
        }
        for (gr, rs) in gf.rules.iter().zip(&f.rules) {
            if gr.scenarios.is_empty() && !cfg.empty_brackets {
                continue;
            }
            let ri = r_src.len();
            r_src.push((fi, Source::new(gr.clone())));
            let rbg = bg_steps(&gr.background);
            for (gs, s) in gr.scenarios.iter().zip(&rs.scenarios) {
                let p = mk_sc(gs, s, Some(ri), &rbg, &mut r, &mut tok);
                plans.push(p);
            }
        }
    }
    // features without any scenario produce no bracket
    let f_used: Vec<bool> = (0..feats.len()).map(|fi| cfg.empty_brackets || plans.iter().any(|p| p.f == fi)).collect();

    let mut items: Vec<Item> = Vec::new();
    let mut meta: Vec<Meta> = Vec::new();
    let push = |items: &mut Vec<Item>, meta: &mut Vec<Meta>, ev: Result<Cucumber<TW>, cucumber::parser::Error>, kind: Kind, f, rr, sc| {
        let token = items.len() as u64;
        items.push(ev.map(|e| stamp(Event::new(e), token)));
        meta.push(Meta { token, kind, f, r: rr, sc });
    };

    let n_err = if cfg.parse_errs && r.chance(1, 4) { r.range(1, 2) } else { 0 };
    let n_attempts: usize = plans.iter().map(|p| p.attempts.len()).sum();
    let n_steps: usize = feats
        .iter()
        .map(|f| f.scenarios.iter().map(|s| s.steps.len()).sum::<usize>() + f.rules.iter().flat_map(|r| &r.scenarios).map(|s| s.steps.len()).sum::<usize>())
        .sum();
    let pf = Cucumber::ParsingFinished {
        features: feats.len(),
        rules: feats.iter().map(|f| f.rules.len()).sum(),
        scenarios: plans.len(),
        steps: n_steps,
        parser_errors: n_err,
    };

    // ---- linearization ----
    // per scenario: cursor (attempt, position)
    let mut cur: Vec<(usize, usize)> = vec![(0, 0); plans.len()];
    let done = |cur: &[(usize, usize)], plans: &[ScPlan], i: usize| cur[i].0 >= plans[i].attempts.len();
    let mut f_started = vec![false; feats.len()];
    let mut f_finished = vec![false; feats.len()];
    let mut r_started = vec![false; r_src.len()];
    let mut r_finished = vec![false; r_src.len()];
    let mut errs_left = n_err;
    let mut pf_done = false;

    push(&mut items, &mut meta, Ok(Cucumber::Started), Kind::RunStarted, None, None, None);
    if !interleave {
        for _ in 0..errs_left {
            {
                let n_items = items.len() as u32;
                push(&mut items, &mut meta, Err(exec::parse_error(n_items)), Kind::ParseErr, None, None, None);
            }
        }
        push(&mut items, &mut meta, Ok(pf.clone()), Kind::ParsingFinished, None, None, None);
        for fi in 0..feats.len() {
            if !f_used[fi] {
                continue;
            }
            push(&mut items, &mut meta, Ok(Cucumber::feature_started(f_src[fi].clone())), Kind::FeatStarted, Some(fi), None, None);
            // entities of the feature in random order: top-level scenarios and rules
            let mut ents: Vec<(Option<usize>, Option<usize>)> = Vec::new(); // (scenario idx, rule idx)
            for (si, p) in plans.iter().enumerate() {
                if p.f == fi && p.r.is_none() {
                    ents.push((Some(si), None));
                }
            }
            for (ri, (rf, _)) in r_src.iter().enumerate() {
                if *rf == fi {
                    ents.push((None, Some(ri)));
                }
            }
            r.shuffle(&mut ents);
            let emit_sc = |si: usize, items: &mut Vec<Item>, meta: &mut Vec<Meta>| {
                let p = &plans[si];
                for (k, w) in p.attempts.iter().enumerate() {
                    for e in w {
                        let ev = Cucumber::scenario(f_src[p.f].clone(), p.r.map(|ri| r_src[ri].1.clone()), p.src.clone(), e.take().expect("emitted once"));
                        let token = items.len() as u64;
                        items.push(Ok(stamp(Event::new(ev), token)));
                        meta.push(Meta { token, kind: Kind::Sc, f: Some(p.f), r: p.r, sc: Some((si, k)) });
                    }
                }
            };
            for (si, ri) in ents {
                if let Some(si) = si {
                    emit_sc(si, &mut items, &mut meta);
                }
                if let Some(ri) = ri {
                    push(&mut items, &mut meta, Ok(Cucumber::rule_started(f_src[fi].clone(), r_src[ri].1.clone())), Kind::RuleStarted, Some(fi), Some(ri), None);
                    let mut scs: Vec<usize> = (0..plans.len()).filter(|s| plans[*s].r == Some(ri)).collect();
                    r.shuffle(&mut scs);
                    for si in scs {
                        emit_sc(si, &mut items, &mut meta);
                    }
                    push(&mut items, &mut meta, Ok(Cucumber::rule_finished(f_src[fi].clone(), r_src[ri].1.clone())), Kind::RuleFinished, Some(fi), Some(ri), None);
                }
            }
            push(&mut items, &mut meta, Ok(Cucumber::feature_finished(f_src[fi].clone())), Kind::FeatFinished, Some(fi), None, None);
        }
    } else {
        loop {
            // enabled actions
            #[derive(Clone, Copy)]
            enum Act {
                Err,
                Pf,
                FStart(usize),
                FFinish(usize),
                RStart(usize),
                RFinish(usize),
                Sc(usize),
            }
            let mut acts: Vec<Act> = Vec::new();
            if errs_left > 0 {
                acts.push(Act::Err);
            } else if !pf_done {
                acts.push(Act::Pf);
            }
            for fi in 0..feats.len() {
                if !f_used[fi] {
                    continue;
                }
                if !f_started[fi] {
                    acts.push(Act::FStart(fi));
                } else if !f_finished[fi]
                    && (0..plans.len()).all(|s| plans[s].f != fi || done(&cur, &plans, s))
                    && r_src.iter().enumerate().all(|(ri, (rf, _))| *rf != fi || r_finished[ri])
                {
                    acts.push(Act::FFinish(fi));
                }
            }
            for (ri, (rf, _)) in r_src.iter().enumerate() {
                if f_started[*rf] && !r_started[ri] {
                    acts.push(Act::RStart(ri));
                } else if r_started[ri] && !r_finished[ri] && (0..plans.len()).all(|s| plans[s].r != Some(ri) || done(&cur, &plans, s)) {
                    acts.push(Act::RFinish(ri));
                }
            }
            for s in 0..plans.len() {
                if done(&cur, &plans, s) || !f_started[plans[s].f] || plans[s].r.is_some_and(|ri| !r_started[ri]) {
                    continue;
                }
                // weight running scenarios higher so attempts overlap but also finish
                acts.push(Act::Sc(s));
                if cur[s] != (0, 0) {
                    acts.push(Act::Sc(s));
                }
            }
            if acts.is_empty() {
                break;
            }
            match *r.pick(&acts) {
                Act::Err => {
                    errs_left -= 1;
                    {
                let n_items = items.len() as u32;
                push(&mut items, &mut meta, Err(exec::parse_error(n_items)), Kind::ParseErr, None, None, None);
            }
                }
                Act::Pf => {
                    pf_done = true;
                    push(&mut items, &mut meta, Ok(pf.clone()), Kind::ParsingFinished, None, None, None);
                }
                Act::FStart(fi) => {
                    f_started[fi] = true;
                    push(&mut items, &mut meta, Ok(Cucumber::feature_started(f_src[fi].clone())), Kind::FeatStarted, Some(fi), None, None);
                }
                Act::FFinish(fi) => {
                    f_finished[fi] = true;
                    push(&mut items, &mut meta, Ok(Cucumber::feature_finished(f_src[fi].clone())), Kind::FeatFinished, Some(fi), None, None);
                }
                Act::RStart(ri) => {
                    r_started[ri] = true;
                    let fi = r_src[ri].0;
                    push(&mut items, &mut meta, Ok(Cucumber::rule_started(f_src[fi].clone(), r_src[ri].1.clone())), Kind::RuleStarted, Some(fi), Some(ri), None);
                }
                Act::RFinish(ri) => {
                    r_finished[ri] = true;
                    let fi = r_src[ri].0;
                    push(&mut items, &mut meta, Ok(Cucumber::rule_finished(f_src[fi].clone(), r_src[ri].1.clone())), Kind::RuleFinished, Some(fi), Some(ri), None);
                }
                Act::Sc(s) => {
                    let p = &plans[s];
                    let (k, pos) = cur[s];
                    let e = p.attempts[k][pos].take().expect("emitted once");
                    let ev = Cucumber::scenario(f_src[p.f].clone(), p.r.map(|ri| r_src[ri].1.clone()), p.src.clone(), e);
                    push(&mut items, &mut meta, Ok(ev), Kind::Sc, Some(p.f), p.r, Some((s, k)));
                    cur[s] = if pos + 1 == p.attempts[k].len() { (k + 1, 0) } else { (k, pos + 1) };
                }
            }
        }
    }
    push(&mut items, &mut meta, Ok(Cucumber::Finished), Kind::RunFinished, None, None, None);

    SynthStream {
        items,
        meta,
        sequential: !interleave,
        n_features: f_used.iter().filter(|u| **u).count(),
        n_rules: r_src.len(),
        n_scenarios: plans.len(),
        n_attempts,
        feats,
    }
}

/// Wraps a recorded real stream: stamps tokens and derives the structural
/// metadata from Source identities.
pub fn from_items(items: &[Item]) -> SynthStream {
    use crate::evrec::{self, Ev, ScEv};
    use std::collections::HashMap;
    let mut f_ids: HashMap<usize, usize> = HashMap::new();
    let mut r_ids: HashMap<usize, usize> = HashMap::new();
    let mut s_ids: HashMap<usize, usize> = HashMap::new();
    let mut att_ids: HashMap<(usize, Option<(usize, usize)>), usize> = HashMap::new();
    let mut next_att: HashMap<usize, usize> = HashMap::new();
    let mut out_items = Vec::new();
    let mut meta = Vec::new();
    for (i, it) in items.iter().enumerate() {
        let it2: Item = match it {
            Ok(ev) => Ok(stamp(ev.clone(), i as u64)),
            Err(e) => Err(e.clone()),
        };
        let rec = evrec::fingerprint(&it2, i, 0, 0, 0);
        let nf = f_ids.len();
        let f = rec.f.map(|f| *f_ids.entry(f.ptr).or_insert(nf));
        let nr = r_ids.len();
        let r = rec.r.map(|r| *r_ids.entry(r.ptr).or_insert(nr));
        let ns = s_ids.len();
        let s = rec.s.map(|s| *s_ids.entry(s.ptr).or_insert(ns));
        let sc = s.map(|s| {
            let k = *att_ids.entry((s, rec.retries)).or_insert_with(|| {
                let n = next_att.entry(s).or_insert(0);
                *n += 1;
                *n - 1
            });
            (s, k)
        });
        let kind = match rec.ev {
            Ev::Started => Kind::RunStarted,
            Ev::ParsingFinished { .. } => Kind::ParsingFinished,
            Ev::ParseErr(_) => Kind::ParseErr,
            Ev::Finished => Kind::RunFinished,
            Ev::FeatStarted => Kind::FeatStarted,
            Ev::FeatFinished => Kind::FeatFinished,
            Ev::RuleStarted => Kind::RuleStarted,
            Ev::RuleFinished => Kind::RuleFinished,
            Ev::Sc(ScEv::Started | ScEv::Finished | ScEv::Log(_) | ScEv::Hook { .. } | ScEv::Step { .. }) => Kind::Sc,
        };
        out_items.push(it2);
        meta.push(Meta { token: i as u64, kind, f, r, sc });
    }
    SynthStream {
        items: out_items,
        meta,
        sequential: false,
        n_features: f_ids.len(),
        n_rules: r_ids.len(),
        n_scenarios: s_ids.len(),
        n_attempts: att_ids.len(),
        feats: Vec::new(),
    }
}

/// Suffixes with quotes, markup, ampersands, non-ASCII (C14 workloads).
pub const TRICKY: &[&str] = &[
    "\"dq\"", "'sq'", "<tag>", "a&b", "é", "日本", "&amp;", "</testcase>", "\\n", "{json}", "[x]", "100%", "ünï çode",
];

/// Appends tricky suffixes to names and step texts. `cdata` additionally plants
/// the CDATA terminator `]]>` somewhere (known to break the JUnit dependency).
pub fn decorate(feats: &mut [FeatSpec], r: &mut Rng, cdata: bool) {
    let sfx = |r: &mut Rng| -> String {
        if r.chance(1, 2) { format!(" {}", r.pick(TRICKY)) } else { String::new() }
    };
    for f in feats.iter_mut() {
        f.name.push_str(&sfx(r));
        for s in f.bg.iter_mut() {
            s.text.push_str(&sfx(r));
        }
        let mut scs: Vec<&mut ScSpec> = f.scenarios.iter_mut().collect();
        for rule in f.rules.iter_mut() {
            rule.name.push_str(&sfx(r));
            for s in rule.bg.iter_mut() {
                s.text.push_str(&sfx(r));
            }
            scs.extend(rule.scenarios.iter_mut());
        }
        for sc in scs {
            sc.name.push_str(&sfx(r));
            for s in sc.steps.iter_mut() {
                s.text.push_str(&sfx(r));
                // doc strings and data tables (printed by Basic / JUnit, ignored by the others)
                if r.chance(1, 6) {
                    s.doc = Some(format!("doc line one{}\n  second <line> & more", sfx(r)));
                }
                if r.chance(1, 6) {
                    s.table = Some(vec![vec!["k".into(), format!("v{}", sfx(r))], vec!["longer key".into(), "1".into()]]);
                }
            }
        }
    }
    if cdata {
        if let Some(f) = feats.first_mut() {
            if let Some(s) = f.scenarios.first_mut() {
                s.name.push_str(" ]]>");
            } else {
                f.name.push_str(" ]]>");
            }
        }
    }
}

/// Makes step texts repeat inside scenarios (and between a background and a
/// scenario's last step): steps are then distinguishable by position only.
pub fn repeat_step_texts(feats: &mut [FeatSpec], r: &mut Rng) {
    for f in feats.iter_mut() {
        let mut last_texts: Vec<String> = Vec::new();
        let mut scs: Vec<&mut ScSpec> = f.scenarios.iter_mut().collect();
        for rule in f.rules.iter_mut() {
            scs.extend(rule.scenarios.iter_mut());
        }
        for sc in scs {
            let n = sc.steps.len();
            if n >= 2 && r.chance(1, 2) {
                let j = r.below(n - 1);
                let t = sc.steps[n - 1].text.clone();
                sc.steps[j].text = t;
            }
            if let Some(l) = sc.steps.last() {
                last_texts.push(l.text.clone());
            }
        }
        if !f.bg.is_empty() && !last_texts.is_empty() && r.chance(1, 3) {
            let k = r.below(f.bg.len());
            f.bg[k].text = r.pick(&last_texts).clone();
        }
    }
}

/// Gives some scenarios of a feature the same name (they differ by line only).
pub fn same_scenario_names(feats: &mut [FeatSpec], r: &mut Rng) {
    for f in feats.iter_mut() {
        if f.scenarios.len() >= 2 && r.chance(1, 2) {
            let name = f.scenarios[0].name.clone();
            let k = 1 + r.below(f.scenarios.len() - 1);
            f.scenarios[k].name = name;
        }
        for rule in f.rules.iter_mut() {
            if rule.scenarios.len() >= 2 && r.chance(1, 2) {
                let name = rule.scenarios[0].name.clone();
                rule.scenarios[1].name = name;
            }
        }
    }
}
