//! Tiny deterministic PRNG (splitmix64 / xorshift) - no external crates.

#[derive(Clone, Debug)]
pub struct Rng(pub u64);

impl Rng {
    pub fn new(seed: u64) -> Self {
        let mut r = Rng(seed ^ 0x9E37_79B9_7F4A_7C15);
        r.next();
        r.next();
        r
    }
    /// Derives an independent stream.
    pub fn fork(&mut self, salt: u64) -> Rng {
        let a = self.next();
        Rng::new(a ^ salt.wrapping_mul(0xD6E8_FEB8_6659_FD93))
    }
    pub fn next(&mut self) -> u64 {
        self.0 = self.0.wrapping_add(0x9E37_79B9_7F4A_7C15);
        let mut z = self.0;
        z = (z ^ (z >> 30)).wrapping_mul(0xBF58_476D_1CE4_E5B9);
        z = (z ^ (z >> 27)).wrapping_mul(0x94D0_49BB_1331_11EB);
        z ^ (z >> 31)
    }
    /// Uniform in `0..n` (n > 0).
    pub fn below(&mut self, n: usize) -> usize {
        (self.next() % (n as u64)) as usize
    }
    /// Uniform in `lo..=hi`.
    pub fn range(&mut self, lo: usize, hi: usize) -> usize {
        lo + self.below(hi - lo + 1)
    }
    /// True with probability `num/den`.
    pub fn chance(&mut self, num: usize, den: usize) -> bool {
        self.below(den) < num
    }
    pub fn pick<'a, T>(&mut self, xs: &'a [T]) -> &'a T {
        &xs[self.below(xs.len())]
    }
    pub fn shuffle<T>(&mut self, xs: &mut [T]) {
        for i in (1..xs.len()).rev() {
            let j = self.below(i + 1);
            xs.swap(i, j);
        }
    }
}

/// FNV-1a, used for cheap "distinct shape" signatures.
pub fn fnv(s: &str) -> u64 {
    let mut h: u64 = 0xcbf2_9ce4_8422_2325;
    for b in s.as_bytes() {
        h ^= u64::from(*b);
        h = h.wrapping_mul(0x0000_0100_0000_01b3);
    }
    h
}
