//! Instrumented `World`, hooks and step functions: the boundary recorder.
//!
//! Every user callback (World::new, before hook, step, after hook) appends to
//! a per-run, single-threaded callback log and awaits 0..n *gates* that only
//! the harness scheduler releases.

use std::{
    cell::RefCell,
    collections::HashMap,
    future::Future,
    pin::Pin,
    task::{Context, Poll, Waker},
    time::Instant,
};

use cucumber::{World, event, gherkin, step};
use futures::future::LocalBoxFuture;

use crate::spec::{Behav, Outcome, PanicKind, WorldBehav};

#[derive(Clone, Copy, Debug, PartialEq, Eq)]
pub enum CbKind {
    WorldNew,
    Before,
    Step,
    After,
}

#[derive(Clone, Debug, PartialEq, Eq)]
pub enum CbOutcome {
    Open,
    Pass,
    /// Panicked with the given payload kind and token.
    Panic(PanicKind, u64),
    /// `World::new` returned `Err` carrying the token.
    Err(u64),
}

#[derive(Clone, Debug)]
pub struct Cb {
    pub kind: CbKind,
    pub unit: String,
    pub sc_uid: Option<u32>,
    pub world: Option<u64>,
    /// World mutation counter observed at entry.
    pub counter: Option<u64>,
    pub text: String,
    pub enter_seq: u64,
    pub exit_seq: Option<u64>,
    pub enter_t: Instant,
    pub exit_t: Option<Instant>,
    pub enter_q: u32,
    pub exit_q: Option<u32>,
    pub enter_poll: u64,
    pub exit_poll: Option<u64>,
    pub outcome: CbOutcome,
    /// After hook: rendering of the `ScenarioFinished` it received.
    pub fin: Option<String>,
    /// Step: `Context.matches` received.
    pub matches: Vec<(Option<String>, String)>,
    /// Ids of log lines emitted (vtrace).
    pub logs: Vec<String>,
}

pub struct GateEntry {
    pub id: u64,
    pub owner: usize,
    pub waker: Waker,
    pub released: bool,
}

#[derive(Default)]
pub struct RunState {
    pub seq: u64,
    pub q: u32,
    pub poll: u64,
    pub log: Vec<Cb>,
    pub plan: HashMap<String, Vec<Behav>>,
    pub invocations: HashMap<String, usize>,
    pub world_plan: Vec<WorldBehav>,
    /// Worlds that attached a hold-only worker to their scenario span.
    pub scenario_span_holds: u64,
    pub world_calls: usize,
    pub world_gates: u8,
    pub next_world_id: u64,
    pub gates: Vec<GateEntry>,
    pub next_gate_id: u64,
    pub next_token: u64,
    pub emit_logs: bool,
    /// The runner's CLI options of this run were parsed from an argument vector.
    pub cli_from_argv: bool,
    /// The crate's CLI rejected an argument vector that gives runner options after a sub-command.
    pub cli_rejected: Option<String>,
    /// Log at `WARN`/`ERROR` instead of `INFO` (runs whose subscriber filters out `INFO`).
    pub log_loud: bool,
    /// Lines logged outside of any span from inside callbacks.
    pub helper_logs: u64,
    /// Lines logged through the `log` crate's macros.
    pub log_facade_lines: u64,
    pub log_ctr: u64,
    pub deferred: Vec<Deferred>,
    /// Set while a deferred emission runs: the ids logged then go to `late_ids`.
    pub firing_deferred: bool,
    /// Log ids emitted by a callback's detached worker after the callback returned.
    pub late_ids: std::collections::HashSet<String>,
}

/// A log emission postponed until the scheduler fires it: emitted inside a clone
/// of the emitting callback's span after the callback has returned.
pub struct Deferred {
    #[cfg(feature = "tracing")]
    pub span: tracing::Span,
    pub owner: usize,
    pub n: u8,
}

thread_local! {
    pub static RS: RefCell<RunState> = RefCell::new(RunState::default());
}

pub fn with_rs<T>(f: impl FnOnce(&mut RunState) -> T) -> T {
    RS.with(|rs| f(&mut rs.borrow_mut()))
}

impl RunState {
    fn tick(&mut self) -> u64 {
        self.seq += 1;
        self.seq
    }
    fn behaviour(&mut self, unit: &str) -> Behav {
        let n = self.invocations.entry(unit.to_owned()).or_insert(0);
        let i = *n;
        *n += 1;
        match self.plan.get(unit) {
            Some(v) if !v.is_empty() => v[i.min(v.len() - 1)],
            _ => Behav::PASS,
        }
    }
}

fn cb_enter(
    kind: CbKind,
    unit: String,
    sc_uid: Option<u32>,
    world: Option<u64>,
    counter: Option<u64>,
    text: String,
) -> (usize, Behav) {
    with_rs(|rs| {
        let b = if kind == CbKind::WorldNew { Behav::PASS } else { rs.behaviour(&unit) };
        let seq = rs.tick();
        let q = rs.q;
        let poll = rs.poll;
        rs.log.push(Cb {
            kind,
            unit,
            sc_uid,
            world,
            counter,
            text,
            enter_seq: seq,
            exit_seq: None,
            enter_t: Instant::now(),
            exit_t: None,
            enter_q: q,
            exit_q: None,
            enter_poll: poll,
            exit_poll: None,
            outcome: CbOutcome::Open,
            fin: None,
            matches: Vec::new(),
            logs: Vec::new(),
        });
        (rs.log.len() - 1, b)
    })
}

fn cb_exit(idx: usize, outcome: CbOutcome) {
    with_rs(|rs| {
        let seq = rs.tick();
        let q = rs.q;
        let poll = rs.poll;
        let cb = &mut rs.log[idx];
        cb.exit_poll = Some(poll);
        cb.exit_seq = Some(seq);
        cb.exit_t = Some(Instant::now());
        cb.exit_q = Some(q);
        cb.outcome = outcome;
    });
}

fn new_token() -> u64 {
    with_rs(|rs| {
        rs.next_token += 1;
        rs.next_token
    })
}

/// Custom (non-string) panic payload.
#[derive(Debug, PartialEq, Eq)]
pub struct Boom(pub u64);

pub const STATIC_MSGS: [&str; 8] = [
    "static-boom-0",
    "static-boom-1",
    "static-boom-2",
    "static-boom-3",
    "static-boom-4",
    "static-boom-5",
    "static-boom-6",
    "static-boom-7",
];

fn throw(kind: PanicKind, token: u64) -> ! {
    // every 5th panic is raised on a helper thread of the callback (a blocking call moved off the
    // executor, a scoped worker) and carried over by `join()`: still the callback's panic
    if token % 5 == 2 {
        HELPER_THREAD_PANICS.fetch_add(1, std::sync::atomic::Ordering::SeqCst);
        let res = std::thread::spawn(move || throw_here(kind, token)).join();
        match res {
            Err(payload) => std::panic::resume_unwind(payload),
            Ok(never) => never,
        }
    }
    throw_here(kind, token)
}

/// Panics raised on a helper thread so far (process-wide).
pub static HELPER_THREAD_PANICS: std::sync::atomic::AtomicU64 = std::sync::atomic::AtomicU64::new(0);

fn throw_here(kind: PanicKind, token: u64) -> ! {
    match kind {
        PanicKind::String => std::panic::panic_any(format!("boom#{token}#")),
        PanicKind::Str => std::panic::panic_any(STATIC_MSGS[(token % 8) as usize]),
        PanicKind::Custom => std::panic::panic_any(Boom(token)),
        PanicKind::Int => std::panic::panic_any(token as i64),
    }
}

/// A suspension point that stays `Pending` until the scheduler releases it.
pub struct Gate {
    id: Option<u64>,
    owner: usize,
}

pub fn gate(owner: usize) -> Gate {
    Gate { id: None, owner }
}

impl Future for Gate {
    type Output = ();
    fn poll(mut self: Pin<&mut Self>, cx: &mut Context<'_>) -> Poll<()> {
        with_rs(|rs| match self.id {
            None => {
                rs.next_gate_id += 1;
                let id = rs.next_gate_id;
                self.id = Some(id);
                rs.gates.push(GateEntry {
                    id,
                    owner: self.owner,
                    waker: cx.waker().clone(),
                    released: false,
                });
                rs.tick();
                Poll::Pending
            }
            Some(id) => {
                let pos = rs.gates.iter().position(|g| g.id == id);
                match pos {
                    Some(p) if rs.gates[p].released => {
                        drop(rs.gates.remove(p));
                        rs.tick();
                        Poll::Ready(())
                    }
                    Some(p) => {
                        rs.gates[p].waker = cx.waker().clone();
                        Poll::Pending
                    }
                    None => Poll::Ready(()),
                }
            }
        })
    }
}

impl Drop for Gate {
    fn drop(&mut self) {
        // A gate dropped while pending (run aborted) must not stay in the table.
        if let Some(id) = self.id {
            let _ = RS.try_with(|rs| {
                if let Ok(mut rs) = rs.try_borrow_mut() {
                    rs.gates.retain(|g| g.id != id);
                }
            });
        }
    }
}

#[cfg(feature = "tracing")]
thread_local! {
    /// Called before every line a callback logs (the tracing workload lets a sibling run make progress
    /// there, so that its lines get in between this run's).
    static LOG_HOOK: RefCell<Option<Box<dyn FnMut()>>> = const { RefCell::new(None) };
}

#[cfg(feature = "tracing")]
pub fn set_log_hook(f: Option<Box<dyn FnMut()>>) {
    LOG_HOOK.with(|h| *h.borrow_mut() = f);
}

#[cfg(feature = "tracing")]
fn emit_logs(idx: usize, n: u16) {
    for _ in 0..n {
        let hook = LOG_HOOK.with(|h| h.borrow_mut().take());
        if let Some(mut f) = hook {
            f();
            LOG_HOOK.with(|h| *h.borrow_mut() = Some(f));
        }
        let id = with_rs(|rs| {
            if !rs.emit_logs {
                return None;
            }
            rs.log_ctr += 1;
            let id = format!("L:{idx}:{}", rs.log_ctr);
            rs.log[idx].logs.push(id.clone());
            if rs.firing_deferred {
                rs.late_ids.insert(id.clone());
            }
            Some(id)
        });
        if let Some(id) = id {
            // every 5th line names its parent explicitly and is emitted from a foreign context
            // (a detached root span, as a helper thread or a spawned task would have)
            let n = with_rs(|rs| rs.log_ctr);
            // message texts a program may well log: double underscores, and the words the
            // integration itself uses as separators
            let tail = match n % 7 {
                2 => " resolved __typename of node",
                4 => " state is __unknown for now",
                6 => " dunder__in__the__middle__",
                _ => "",
            };
            let loud = with_rs(|rs| rs.log_loud);
            // now and then a helper of the callback (another thread, a detached task) logs as well,
            // outside of any span: such a line belongs to no scenario and goes to all the running ones
            if n % 9 == 4 && with_rs(|rs| { rs.helper_logs += 1; rs.helper_logs <= 40 }) {
                if loud {
                    tracing::warn!(parent: None, "OUT:helper of {id}");
                } else {
                    tracing::info!(parent: None, "OUT:helper of {id}");
                }
            }
            // every 7th line comes through the `log` facade, as the lines of most third-party crates do
            // (`init_tracing()` installs the bridge that turns them into events of the current span)
            if n % 7 == 3 {
                with_rs(|rs| rs.log_facade_lines += 1);
                if loud {
                    log::warn!("{id}{tail}");
                } else {
                    log::info!("{id}{tail}");
                }
            } else if n % 5 == 0 {
                let here = tracing::Span::current();
                let detached = tracing::error_span!(parent: None, "detached");
                detached.in_scope(|| if loud { tracing::warn!(parent: &here, "{id}{tail}") } else { tracing::info!(parent: &here, "{id}{tail}") });
            } else if loud && n % 2 == 0 {
                tracing::error!("{id}{tail}");
            } else if loud {
                tracing::warn!("{id}{tail}");
            } else {
                tracing::info!("{id}{tail}");
            }
        }
    }
}

#[cfg(not(feature = "tracing"))]
fn emit_logs(_: usize, _: u16) {}

#[cfg(feature = "tracing")]
fn defer_logs(idx: usize, n: u8) {
    if n > 0 && with_rs(|rs| rs.emit_logs) {
        let span = tracing::Span::current();
        with_rs(|rs| rs.deferred.push(Deferred { span, owner: idx, n }));
    }
}

#[cfg(not(feature = "tracing"))]
fn defer_logs(_: usize, _: u8) {}

/// Emits the oldest postponed logs inside their span, then drops the span clone.
/// `idle`: nothing else can make progress - then also a worker that only *holds* a span (logs
/// nothing) lets go; otherwise only logging workers are candidates.
pub fn fire_deferred(idle: bool) -> Option<usize> {
    let d = with_rs(|rs| {
        let pos = if idle { (!rs.deferred.is_empty()).then_some(0) } else { rs.deferred.iter().position(|d| d.n > 0) };
        pos.map(|p| rs.deferred.remove(p))
    })?;
    #[cfg(feature = "tracing")]
    {
        let entered = d.span.enter();
        with_rs(|rs| rs.firing_deferred = true);
        emit_logs(d.owner, u16::from(d.n));
        with_rs(|rs| rs.firing_deferred = false);
        drop(entered);
    }
    Some(d.owner)
}

async fn body(idx: usize, b: Behav) {
    emit_logs(idx, b.logs_before);
    for _ in 0..b.gates_before {
        gate(idx).await;
    }
    if let Outcome::Panic(kind) = b.outcome {
        let token = new_token();
        cb_exit(idx, CbOutcome::Panic(kind, token));
        throw(kind, token);
    }
    emit_logs(idx, b.logs_after);
    for _ in 0..b.gates_after {
        gate(idx).await;
    }
    emit_logs(idx, b.logs_after.min(1));
    defer_logs(idx, b.deferred_logs);
    cb_exit(idx, CbOutcome::Pass);
}

// ---------------------------------------------------------------------------

#[derive(Debug)]
pub struct TW {
    pub id: u64,
    pub counter: u64,
}

impl World for TW {
    type Error = String;

    // A plain fn returning a future (as a hand-written World may be): the prologue runs at call time.
    #[allow(clippy::manual_async_fn)]
    fn new() -> impl Future<Output = Result<Self, String>> {
        let (idx, _) = cb_enter(CbKind::WorldNew, "W".into(), None, None, None, String::new());
        let (wb, gates) = with_rs(|rs| {
            let i = rs.world_calls;
            rs.world_calls += 1;
            let wb = if rs.world_plan.is_empty() {
                WorldBehav::Ok
            } else {
                rs.world_plan[i.min(rs.world_plan.len() - 1)]
            };
            (wb, rs.world_gates)
        });
        // every other World keeps the span it is created in open for a while (a detached worker owning
        // a clone of it and logging nothing): under a before hook that is the *scenario* span itself
        #[cfg(feature = "tracing")]
        if with_rs(|rs| rs.emit_logs && rs.world_calls % 2 == 1) {
            // a direct child of the SCENARIO span (the parent of the hook / step span World::new runs
            // in), the way a background worker attached to the whole scenario would hold one
            use tracing_subscriber::registry::LookupSpan as _;
            let scenario_span = tracing::dispatcher::get_default(|d| {
                let registry = d.downcast_ref::<tracing_subscriber::Registry>()?;
                let here = tracing::Span::current().id()?;
                registry.span(&here)?.parent().map(|p| p.id())
            });
            if let Some(parent) = scenario_span {
                let span = tracing::error_span!(parent: parent, "scenario worker");
                with_rs(|rs| rs.deferred.push(Deferred { span, owner: idx, n: 0 }));
                with_rs(|rs| rs.scenario_span_holds += 1);
            }
        }
        if let WorldBehav::EagerPanic(kind) = wb {
            let token = new_token();
            cb_exit(idx, CbOutcome::Panic(kind, token));
            throw(kind, token)
        }
        async move {
        for _ in 0..gates {
            gate(idx).await;
        }
        match wb {
            WorldBehav::Ok => {
                let id = with_rs(|rs| {
                    rs.next_world_id += 1;
                    let id = rs.next_world_id;
                    rs.log[idx].world = Some(id);
                    id
                });
                cb_exit(idx, CbOutcome::Pass);
                Ok(TW { id, counter: 0 })
            }
            WorldBehav::Err => {
                let token = new_token();
                cb_exit(idx, CbOutcome::Err(token));
                Err(format!("world-err#{token}#"))
            }
            WorldBehav::Panic(kind) => {
                let token = new_token();
                cb_exit(idx, CbOutcome::Panic(kind, token));
                throw(kind, token)
            }
            WorldBehav::EagerPanic(_) => unreachable!("handled in the prologue"),
        }
        }
    }
}

/// "sc s12 ..." -> 12
pub fn uid_of(name: &str, prefix: char) -> Option<u32> {
    name.split_whitespace().find_map(|w| {
        let rest = w.strip_prefix(prefix)?;
        if rest.is_empty() || !rest.bytes().all(|b| b.is_ascii_digit()) {
            return None;
        }
        rest.parse().ok()
    })
}

/// "step s12 i3" -> ("S:s12:3", Some(12)); "step f2 b0" -> ("B:f2:0", None)
pub fn unit_of_step(text: &str) -> (String, Option<u32>) {
    let mut it = text.split_whitespace();
    let _ = it.next();
    let owner = it.next().unwrap_or("?");
    let idx = it.next().unwrap_or("?");
    if let Some(n) = idx.strip_prefix('i') {
        (format!("S:{owner}:{n}"), owner.strip_prefix('s').and_then(|s| s.parse().ok()))
    } else if let Some(n) = idx.strip_prefix('b') {
        (format!("B:{owner}:{n}"), None)
    } else {
        (format!("?:{text}"), None)
    }
}

/// Panics right away (outside any future) when the behaviour says so.
fn maybe_eager(idx: usize, b: &mut Behav) {
    if let (true, Outcome::Panic(kind)) = (b.eager, b.outcome) {
        let token = new_token();
        cb_exit(idx, CbOutcome::Panic(kind, token));
        throw(kind, token);
    }
}

pub fn step_fn(w: &mut TW, ctx: step::Context) -> LocalBoxFuture<'_, ()> {
    let (unit, sc) = unit_of_step(&ctx.step.value);
    let (idx, mut b) =
        cb_enter(CbKind::Step, unit, sc, Some(w.id), Some(w.counter), ctx.step.value.clone());
    with_rs(|rs| rs.log[idx].matches = ctx.matches.clone());
    w.counter += 1;
    maybe_eager(idx, &mut b);
    Box::pin(body(idx, b))
}

pub fn before_hook<'a>(
    _f: &'a gherkin::Feature,
    _r: Option<&'a gherkin::Rule>,
    s: &'a gherkin::Scenario,
    w: &'a mut TW,
) -> LocalBoxFuture<'a, ()> {
    let uid = uid_of(&s.name, 's');
    let unit = format!("HB:s{}", uid.map_or("?".into(), |u| u.to_string()));
    let (idx, mut b) =
        cb_enter(CbKind::Before, unit, uid, Some(w.id), Some(w.counter), s.name.clone());
    w.counter += 1;
    maybe_eager(idx, &mut b);
    Box::pin(body(idx, b))
}

pub fn render_fin(ev: &event::ScenarioFinished) -> String {
    use event::ScenarioFinished as F;
    match ev {
        F::BeforeHookFailed(info) => format!("BeforeHookFailed({:?})", crate::evrec::payload_of(info)),
        F::StepPassed => "StepPassed".into(),
        F::StepSkipped => "StepSkipped".into(),
        F::StepFailed(_, _, err) => format!("StepFailed({:?})", crate::evrec::step_err_of(err)),
    }
}

pub fn after_hook<'a>(
    _f: &'a gherkin::Feature,
    _r: Option<&'a gherkin::Rule>,
    s: &'a gherkin::Scenario,
    fin: &'a event::ScenarioFinished,
    w: Option<&'a mut TW>,
) -> LocalBoxFuture<'a, ()> {
    let uid = uid_of(&s.name, 's');
    let unit = format!("HA:s{}", uid.map_or("?".into(), |u| u.to_string()));
    let (wid, ctr) = match &w {
        Some(w) => (Some(w.id), Some(w.counter)),
        None => (None, None),
    };
    let (idx, mut b) = cb_enter(CbKind::After, unit, uid, wid, ctr, s.name.clone());
    with_rs(|rs| rs.log[idx].fin = Some(render_fin(fin)));
    if let Some(w) = w {
        w.counter += 1;
    }
    maybe_eager(idx, &mut b);
    Box::pin(body(idx, b))
}

/// Resets the thread-local run state for a new case.
pub fn reset(plan: HashMap<String, Vec<Behav>>, world_plan: Vec<WorldBehav>, world_gates: u8) {
    with_rs(|rs| {
        *rs = RunState { plan, world_plan, world_gates, ..RunState::default() };
    });
}
