//! Manual executor + gate scheduler + lazy parser stream.
//!
//! The runner's event stream is polled by hand. Between two *quiescent points*
//! (stream `Pending`, task not woken: every emitted event has been received)
//! exactly one gate is released or one late parser item is delivered, so the
//! completion order of user futures is chosen by the seeded policy.

use std::{
    cell::RefCell,
    collections::VecDeque,
    panic::{self, AssertUnwindSafe},
    pin::Pin,
    rc::Rc,
    sync::{
        Arc,
        atomic::{AtomicBool, AtomicU64, AtomicUsize, Ordering},
    },
    task::{Context, Poll, Wake, Waker},
    thread::{self, Thread},
    time::{Duration, Instant},
};

use cucumber::{
    Runner, ScenarioType,
    feature::ExpandExamplesError,
    gherkin, parser,
    runner::{self, basic::Cli as RunnerCli},
};
use futures::{Stream, StreamExt as _, stream::LocalBoxStream};
use regex::Regex;

use crate::{
    evrec::{self, Item, Rec},
    rng::Rng,
    spec::{self, CaseSpec, Pend, Policy},
    world::{self, Cb, TW, with_rs},
};

/// Heartbeat for the in-poll spin watchdog (see `watchdog`).
pub static HEARTBEAT: AtomicU64 = AtomicU64::new(0);
/// Index of the case currently executing (for the watchdog's report).
pub static CUR_CASE: AtomicU64 = AtomicU64::new(u64::MAX);
/// Set while a case is being polled.
pub static IN_RUN: AtomicBool = AtomicBool::new(false);

/// Invocations of the sentinel panic hook.
pub static SENTINEL_HITS: AtomicUsize = AtomicUsize::new(0);

/// Generation of the sentinel hook that is supposed to be in place.
pub static SENTINEL_GEN: AtomicU64 = AtomicU64::new(0);

pub fn install_sentinel_hook() {
    // every installation is a new generation: putting back an *older* sentinel (a hook saved at
    // another moment than the run's first poll) does not count as restoring the right hook
    let generation = SENTINEL_GEN.fetch_add(1, Ordering::SeqCst) + 1;
    panic::set_hook(Box::new(move |info| {
        if SENTINEL_GEN.load(Ordering::SeqCst) != generation {
            return;
        }
        SENTINEL_HITS.fetch_add(1, Ordering::SeqCst);
        // Harness bugs must stay visible; the probe and planned panics are silent.
        if !IN_RUN.load(Ordering::SeqCst) && info.payload().downcast_ref::<Probe>().is_none() {
            eprintln!("harness panic: {info}");
        }
    }));
}

struct FlagWaker {
    woken: AtomicBool,
    thread: Thread,
}

impl Wake for FlagWaker {
    fn wake(self: Arc<Self>) {
        self.wake_by_ref();
    }
    fn wake_by_ref(self: &Arc<Self>) {
        self.woken.store(true, Ordering::SeqCst);
        self.thread.unpark();
    }
}

#[derive(Clone, Debug)]
pub struct Pull {
    pub seq: u64,
    pub q: u32,
    pub poll: u64,
    /// "pending-self", "pending-sched", "item:<n>", "end"
    pub what: String,
    /// Number of events the harness had received when the pull happened.
    pub evs_before: usize,
}

#[derive(Default)]
pub struct ParserShared {
    pub pulls: Vec<Pull>,
    /// Waker of a `Sched` pending poll, to be woken by the scheduler.
    pub waiting: Option<Waker>,
    pub deliver: bool,
    pub n_events: usize,
    pub ended: bool,
}

pub struct LazyParser {
    items: VecDeque<(usize, VecDeque<Pend>, Option<parser::Result<gherkin::Feature>>)>,
    shared: Rc<RefCell<ParserShared>>,
}

impl Stream for LazyParser {
    type Item = parser::Result<gherkin::Feature>;

    fn poll_next(mut self: Pin<&mut Self>, cx: &mut Context<'_>) -> Poll<Option<Self::Item>> {
        let shared = Rc::clone(&self.shared);
        let mut sh = shared.borrow_mut();
        let (seq, q, poll) = with_rs(|rs| (rs.seq, rs.q, rs.poll));
        let evs_before = sh.n_events;
        let log = |sh: &mut ParserShared, what: String| {
            sh.pulls.push(Pull { seq, q, poll, what, evs_before });
        };
        let Some(front) = self.items.front_mut() else {
            sh.ended = true;
            log(&mut sh, "after-end".into());
            return Poll::Ready(None);
        };
        // A scheduler-woken pending stays pending until delivered.
        if sh.waiting.is_some() {
            if sh.deliver {
                sh.deliver = false;
                sh.waiting = None;
            } else {
                sh.waiting = Some(cx.waker().clone());
                log(&mut sh, "pending-sched-again".into());
                return Poll::Pending;
            }
        }
        if let Some(p) = front.1.pop_front() {
            match p {
                Pend::SelfWake => {
                    cx.waker().wake_by_ref();
                    log(&mut sh, "pending-self".into());
                }
                Pend::Sched => {
                    sh.waiting = Some(cx.waker().clone());
                    sh.deliver = false;
                    log(&mut sh, "pending-sched".into());
                }
            }
            return Poll::Pending;
        }
        let (n, _, item) = self.items.pop_front().unwrap();
        match item {
            Some(it) => {
                log(&mut sh, format!("item:{n}"));
                Poll::Ready(Some(it))
            }
            None => {
                sh.ended = true;
                log(&mut sh, "end".into());
                Poll::Ready(None)
            }
        }
    }
}

/// `Parser` for the `Cucumber` facade yielding the case's items.
pub struct FacadeParser(pub LazyParser);

impl cucumber::Parser<()> for FacadeParser {
    type Cli = cucumber::cli::Empty;
    type Output = LazyParser;
    fn parse(self, (): (), _: cucumber::cli::Empty) -> LazyParser {
        self.0
    }
}

pub fn parse_error(n: u32) -> parser::Error {
    parser::Error::Parsing(Arc::new(gherkin::ParseFileError::Reading {
        path: format!("/virt/broken{n}.feature").into(),
        source: std::io::Error::other(format!("perr#{n}#")),
    }))
}

pub fn expand_error(n: u32) -> parser::Error {
    parser::Error::ExampleExpansion(Arc::new(ExpandExamplesError {
        pos: gherkin::LineCol { line: 7, col: 5 },
        name: format!("xerr#{n}#"),
        path: Some(format!("/virt/outline{n}.feature").into()),
    }))
}

pub fn item_of(it: &spec::Item) -> parser::Result<gherkin::Feature> {
    match it {
        spec::Item::Feat(f) => Ok(spec::to_gherkin(f)),
        spec::Item::ErrParse(n) => Err(parse_error(*n)),
        spec::Item::ErrExpand(n) => Err(expand_error(*n)),
    }
}

fn lazy_parser(case: &CaseSpec, shared: Rc<RefCell<ParserShared>>) -> LazyParser {
    let mut items: VecDeque<_> = case
        .items
        .iter()
        .enumerate()
        .map(|(i, it)| (i, case.pend[i].iter().copied().collect::<VecDeque<_>>(), Some(item_of(it))))
        .collect();
    items.push_back((case.items.len(), case.pend[case.items.len()].iter().copied().collect(), None));
    LazyParser { items, shared }
}

pub fn custom_which(
    _f: &gherkin::Feature,
    _r: Option<&gherkin::Rule>,
    s: &gherkin::Scenario,
) -> ScenarioType {
    if s.name.contains("SOLO") { ScenarioType::Serial } else { ScenarioType::Concurrent }
}

fn start<R>(r: R, feats: LazyParser, cli: RunnerCli) -> LocalBoxStream<'static, Item>
where
    R: Runner<TW, Cli = RunnerCli>,
    R::EventStream: 'static,
{
    r.run(feats, cli).boxed_local()
}

/// The test binary's own CLI: one sub-command with an option of its own.
#[derive(clap::Args, Clone, Debug, Default)]
pub struct OwnCli {
    #[command(subcommand)]
    pub command: Option<OwnCommand>,
}

#[derive(clap::Subcommand, Clone, Debug)]
pub enum OwnCommand {
    Smoke {
        #[arg(long)]
        pre_pause: Option<String>,
    },
}

pub fn runner_cli(cfg: &spec::Cfg) -> RunnerCli {
    // every other configuration goes the way a user's does: as command-line arguments through the
    // crate's own `clap` definitions (long names, the `-c` / `--ff` spellings, `humantime` durations,
    // tag expressions); what the runner gets is whatever that parse produced
    let mut argv: Vec<String> = vec!["prog".into()];
    let mut spelling = 0usize;
    if let Some(k) = cfg.cli_concurrency {
        spelling += k % 7;
        argv.extend([if k % 2 == 0 { "--concurrency".to_owned() } else { "-c".to_owned() }, k.to_string()]);
    }
    if cfg.cli_ff {
        argv.push(if spelling % 2 == 0 { "--fail-fast".to_owned() } else { "--ff".to_owned() });
    }
    if let Some(n) = cfg.cli_retry {
        spelling += n;
        argv.push(format!("--retry={n}"));
    }
    if let Some(us) = cfg.cli_retry_after_us {
        spelling += (us % 5) as usize;
        argv.extend(["--retry-after".to_owned(), spec::delay_text(us)]);
    }
    if let Some(f) = &cfg.cli_filter {
        argv.extend(["--retry-tag-filter".to_owned(), f.clone()]);
    }
    if (spelling + argv.len()) % 2 == 1 {
        // ... a third of those behind a sub-command of the test binary's own CLI, as the book's
        // `-- smoke --pre-pause=5s -vv --fail-fast` (the runner's options are global ones)
        if (spelling + argv.len()) % 3 == 1 {
            type Opts = cucumber::cli::Opts<cucumber::cli::Empty, RunnerCli, cucumber::cli::Empty, OwnCli>;
            let mut argv2 = vec![argv[0].clone(), "smoke".to_owned(), "--pre-pause=5s".to_owned()];
            argv2.extend(argv[1..].iter().cloned());
            match <Opts as cucumber::cli::Parser>::try_parse_from(&argv2) {
                Ok(o) => {
                    assert!(matches!(o.custom.command, Some(OwnCommand::Smoke { .. })), "sub-command lost");
                    crate::world::with_rs(|rs| rs.cli_from_argv = true);
                    return o.runner;
                }
                Err(e) => {
                    // what the user typed does not reach the runner at all: reported by the C18 oracle
                    crate::world::with_rs(|rs| rs.cli_rejected = Some(format!("{argv2:?}: {}", e.to_string().lines().next().unwrap_or_default())));
                    return RunnerCli::default();
                }
            }
        }
        type Opts = cucumber::cli::Opts<cucumber::cli::Empty, RunnerCli, cucumber::cli::Empty, cucumber::cli::Empty>;
        match <Opts as cucumber::cli::Parser>::try_parse_from(&argv) {
            Ok(o) => {
                crate::world::with_rs(|rs| rs.cli_from_argv = true);
                return o.runner;
            }
            Err(e) => panic!("the crate's CLI rejected {argv:?}: {e}"),
        }
    }
    RunnerCli {
        concurrency: cfg.cli_concurrency,
        fail_fast: cfg.cli_ff,
        retry: cfg.cli_retry,
        retry_after: spec::dur(cfg.cli_retry_after_us),
        retry_tag_filter: cfg.cli_filter.as_ref().map(|f| f.parse().expect("tagexpr")),
    }
}

/// The three regexes of the harness's step definitions: (`step <unit> <n>`, `ambig ..`, `ambig <a> <b>`).
pub fn step_regexes() -> (Regex, Regex, Regex) {
    (Regex::new(r"^step (\S+) (\S+)$").unwrap(), Regex::new(r"^ambig (.*)$").unwrap(), Regex::new(r"^ambig \S+ \S+$").unwrap())
}

pub fn base_runner(cfg: &spec::Cfg) -> runner::Basic<TW> {
    let mut r = runner::Basic::<TW>::default();
    if let Some(c) = cfg.b_concurrency {
        r = r.max_concurrent_scenarios(c);
    }
    if let Some(n) = cfg.b_retry {
        r = r.retries(n);
    }
    if let Some(d) = cfg.b_retry_after_us {
        r = r.retry_after(Duration::from_micros(d));
    }
    if let Some(f) = &cfg.b_filter {
        r = r.retry_filter(f.parse::<gherkin::tagexpr::TagOperation>().expect("tagexpr"));
    }
    if cfg.b_ff {
        r = r.fail_fast();
    }
    if cfg.resume {
        // a user-supplied retry options function: the default one, except for "resumed" scenarios
        r = r.retry_options(|f, rule, sc, cli| match spec::resumed_tag(&sc.tags) {
            Some((current, left)) => Some(runner::basic::RetryOptions {
                retries: cucumber::event::Retries { current, left },
                after: None,
            }),
            None => runner::basic::RetryOptions::parse_from_tags(f, rule, sc, cli),
        });
    }
    // compiled once per process (regex compilation dominates under Miri)
    thread_local! {
        static RX: [Regex; 3] = [
            Regex::new(r"^step (\S+) (\S+)$").unwrap(),
            Regex::new(r"^ambig (.*)$").unwrap(),
            Regex::new(r"^ambig \S+ \S+$").unwrap(),
        ];
    }
    let (re, a, b) = RX.with(|x| (x[0].clone(), x[1].clone(), x[2].clone()));
    r = r.given(re.clone(), world::step_fn).when(re.clone(), world::step_fn).then(re, world::step_fn);
    r = r
        .given(a.clone(), world::step_fn)
        .given(b.clone(), world::step_fn)
        .when(a.clone(), world::step_fn)
        .when(b.clone(), world::step_fn)
        .then(a, world::step_fn)
        .then(b, world::step_fn);
    r
}

fn build_stream(case: &CaseSpec, feats: LazyParser) -> LocalBoxStream<'static, Item> {
    let cfg = &case.cfg;
    let cli = runner_cli(cfg);
    let r = base_runner(cfg);
    // a third of the runs use a clone of the configured runner (the original is dropped)
    let r = if case.sched_seed % 3 == 0 {
        let copy = r.clone();
        drop(r);
        copy
    } else {
        r
    };
    match (cfg.custom_which, cfg.before_hook, cfg.after_hook) {
        (false, false, false) => start(r, feats, cli),
        (false, true, false) => start(r.before(world::before_hook), feats, cli),
        (false, false, true) => start(r.after(world::after_hook), feats, cli),
        // (the hook builders commute as well)
        (false, true, true) if case.sched_seed % 2 == 1 => {
            start(r.after(world::after_hook).before(world::before_hook), feats, cli)
        }
        (false, true, true) => {
            start(r.before(world::before_hook).after(world::after_hook), feats, cli)
        }
        (true, false, false) => start(r.which_scenario(custom_which), feats, cli),
        (true, true, false) if case.sched_seed % 2 == 0 => {
            start(r.before(world::before_hook).which_scenario(custom_which), feats, cli)
        }
        (true, true, false) => {
            start(r.which_scenario(custom_which).before(world::before_hook), feats, cli)
        }
        (true, false, true) if case.sched_seed % 2 == 0 => {
            start(r.after(world::after_hook).which_scenario(custom_which), feats, cli)
        }
        (true, false, true) => {
            start(r.which_scenario(custom_which).after(world::after_hook), feats, cli)
        }
        // the builder methods commute: half of the cases call them in the other order
        (true, true, true) if case.sched_seed % 2 == 0 => start(
            r.before(world::before_hook).after(world::after_hook).which_scenario(custom_which),
            feats,
            cli,
        ),
        (true, true, true) if case.sched_seed % 4 == 1 => start(
            r.which_scenario(custom_which).after(world::after_hook).before(world::before_hook),
            feats,
            cli,
        ),
        (true, true, true) => start(
            r.which_scenario(custom_which).before(world::before_hook).after(world::after_hook),
            feats,
            cli,
        ),
    }
}

#[derive(Clone, Debug, PartialEq, Eq)]
pub enum End {
    /// Stream returned `None`.
    Ended,
    /// Stream `Pending`, task not woken, no gate, no late item, no timer
    /// wake-up within the generous wait: nothing can ever wake it.
    Stuck { waited_ms: u64, rescued_by_spurious_poll: bool },
    /// A panic escaped `poll_next`.
    PanicEscaped(String),
    /// Too many consecutive self-woken polls without any observable progress.
    Livelock { polls: u64 },
    /// Stream yielded an item after `None`/after run-Finished was not checked here.
    Aborted(String),
}

#[derive(Clone, Debug)]
pub struct QPoint {
    pub q: u32,
    pub seq: u64,
    pub n_events: usize,
    /// Callback-log indices owning a blocked gate.
    pub blocked: Vec<usize>,
    pub parser_waiting: bool,
    pub parser_ended: bool,
    /// "gate:<cb idx>", "deliver", "park", "sleep:<ms>"
    pub decision: String,
    pub t: Instant,
    /// The runner was waking itself without progress (busy-wait) at this point.
    pub busy: bool,
}

pub struct RunOutput {
    pub items: Vec<Item>,
    pub evs: Vec<Rec>,
    pub cbs: Vec<Cb>,
    pub pulls: Vec<Pull>,
    pub qpoints: Vec<QPoint>,
    pub polls: u64,
    pub max_self_wake_streak: u64,
    pub end: End,
    pub polls_after_last_progress: u64,
    pub sentinel_hits_during: usize,
    pub hook_restored: bool,
    pub items_after_end: usize,
    pub sched_hash: u64,
    pub wall: Duration,
    pub parked: u32,
    pub busy_idle_polls: u64,
    /// Extra gates released together with another one at the same quiescent point.
    pub multi_releases: u64,
    /// Log lines the harness emitted outside of any scenario span.
    pub outside_logs: u64,
}

impl RunOutput {
    /// A finished run known only by its items (events recorded by a writer).
    pub fn from_items(items: Vec<Item>) -> RunOutput {
        let evs = items.iter().enumerate().map(|(i, it)| evrec::fingerprint(it, i, 0, 0, 0)).collect();
        RunOutput {
            items,
            evs,
            cbs: Vec::new(),
            pulls: Vec::new(),
            qpoints: Vec::new(),
            polls: 0,
            max_self_wake_streak: 0,
            end: End::Ended,
            polls_after_last_progress: 0,
            sentinel_hits_during: 0,
            hook_restored: true,
            items_after_end: 0,
            sched_hash: 0,
            wall: Duration::ZERO,
            parked: 0,
            busy_idle_polls: 0,
            multi_releases: 0,
            outside_logs: 0,
        }
    }
}

pub const LIVELOCK_POLLS: u64 = 20_000;
pub const BUSY_QUIESCENT_POLLS: u64 = 4;

/// Executes one case against the real runner.
pub fn run_case(case: &CaseSpec) -> RunOutput {
    world::reset(case.plan.clone(), case.world_plan.clone(), case.world_gates);
    let shared = Rc::new(RefCell::new(ParserShared::default()));
    let feats = lazy_parser(case, Rc::clone(&shared));
    let stream = build_stream(case, feats);
    drive(case, shared, stream)
}

/// A run over structurally identical ("twin") features: the same feature delivered several times
/// by the parser (same name, path, positions, text - only the `Source` allocations differ). Returns
/// problems found by a small dedicated oracle that identifies features by `Source` address only.
pub fn run_twins(seed: u64, idx: u64) -> (RunOutput, Vec<(&'static str, &'static str, String)>) {
    let mut r = Rng::new(seed.wrapping_mul(0x7717).wrapping_add(idx));
    let prof = spec::Profile::by_name("general");
    let mut case = spec::generate(&prof, seed ^ 0x7717, idx);
    // one small feature without failures, retries, serial tags or filters ...
    let n_sc = r.range(1, 3);
    let in_rule = r.chance(1, 2);
    let mk_sc = |i: usize| spec::ScSpec {
        uid: i as u32,
        name: format!("sc s{i}"),
        tags: Vec::new(),
        steps: vec![spec::StepSpec { kw: 0, text: format!("step s{i} i0"), kind: spec::StepKind::Run, unit: format!("S:s{i}:0"), doc: None, table: None }],
    };
    let scs: Vec<spec::ScSpec> = (0..n_sc).map(mk_sc).collect();
    let f = spec::FeatSpec {
        uid: 0,
        name: "feat f0".into(),
        tags: Vec::new(),
        bg: Vec::new(),
        scenarios: if in_rule { scs[..1].to_vec() } else { scs.clone() },
        rules: if in_rule { vec![spec::RuleSpec { uid: 0, name: "rule r0".into(), tags: Vec::new(), bg: Vec::new(), scenarios: scs[1..].to_vec() }] } else { Vec::new() },
        path: r.chance(1, 2).then(|| "/virt/twin.feature".into()),
    };
    // ... delivered 2-4 times
    let copies = r.range(2, 4);
    case.items = (0..copies).map(|_| spec::Item::Feat(f.clone())).collect();
    case.pend = (0..=copies).map(|_| if r.chance(1, 3) { vec![spec::Pend::Sched] } else { Vec::new() }).collect();
    case.cfg = spec::Cfg::default();
    case.cfg.b_concurrency = Some(*r.pick(&[Some(1), Some(2), Some(3), Some(64), None]));
    case.plan = (0..n_sc).map(|i| (format!("S:s{i}:0"), vec![spec::Behav { gates_before: r.below(2) as u8, ..spec::Behav::PASS }])).collect();
    case.world_plan = vec![spec::WorldBehav::Ok];
    let out = run_case(&case);
    let mut v: Vec<(&'static str, &'static str, String)> = Vec::new();
    match &out.end {
        End::Ended => {}
        End::PanicEscaped(_) => v.push(("C04", "termination:panic-escaped", format!("{copies} copies of one feature, limit {:?}: a panic escaped the runner's stream ({:?})", case.cfg.limit(), out.end))),
        other => v.push(("C04", "termination:twin-features", format!("{copies} copies of one feature, limit {:?}: run ended as {other:?}", case.cfg.limit()))),
    }
    let started = out.evs.iter().filter(|e| matches!(e.ev, evrec::Ev::Sc(evrec::ScEv::Started))).count();
    if out.end == End::Ended && started != copies * n_sc {
        v.push(("C04", "set:missing", format!("{copies} copies of a feature with {n_sc} scenario(s): {started} scenarios started")));
    }
    // brackets, by Source address
    let mut ptrs: Vec<usize> = Vec::new();
    for e in &out.evs {
        if let Some(f) = e.f {
            if !ptrs.contains(&f.ptr) {
                ptrs.push(f.ptr);
            }
        }
    }
    if out.end == End::Ended && ptrs.len() != copies {
        v.push(("C03", "framing:source-identity", format!("{copies} copies of one feature were delivered, events name {} distinct feature Sources", ptrs.len())));
    }
    for p in &ptrs {
        let of: Vec<&evrec::Rec> = out.evs.iter().filter(|e| e.f.is_some_and(|f| f.ptr == *p)).collect();
        let st: Vec<usize> = of.iter().filter(|e| e.ev == evrec::Ev::FeatStarted).map(|e| e.idx).collect();
        let fi: Vec<usize> = of.iter().filter(|e| e.ev == evrec::Ev::FeatFinished).map(|e| e.idx).collect();
        let first = of.first().map(|e| e.idx);
        let last = of.last().map(|e| e.idx);
        if st.len() != 1 || st.first().copied() != first {
            v.push(("C03", "framing:feature-started", format!("twin feature @{p:#x}: Feature::Started at {st:?}, its first event is #{first:?}")));
        }
        if out.end == End::Ended && (fi.len() != 1 || fi.first().copied() != last) {
            v.push(("C03", "framing:feature-finished", format!("twin feature @{p:#x}: Feature::Finished at {fi:?}, its last event is #{last:?}")));
        }
    }
    (out, v)
}

// ---------------------------------------------------------------------------
// A run started and completed inside a step / hook of another run, on the same thread.

/// World of the nested-run workload (nothing is recorded about it).
#[derive(Debug)]
pub struct NW;

impl cucumber::World for NW {
    type Error = std::convert::Infallible;
    async fn new() -> Result<Self, Self::Error> {
        Ok(NW)
    }
}

fn nw_ok(_: &mut NW, _: cucumber::step::Context) -> futures::future::LocalBoxFuture<'_, ()> {
    Box::pin(async {})
}

fn nw_boom(_: &mut NW, _: cucumber::step::Context) -> futures::future::LocalBoxFuture<'_, ()> {
    Box::pin(async { panic::panic_any(String::from("planned nested boom")) })
}

fn nw_feature(name: &str, steps: &[&str]) -> gherkin::Feature {
    let sc = spec::ScSpec {
        uid: 0,
        name: format!("sc s0 {name}"),
        tags: Vec::new(),
        steps: steps.iter().map(|t| spec::StepSpec { kw: 0, text: (*t).to_owned(), kind: spec::StepKind::Run, unit: String::new(), doc: None, table: None }).collect(),
    };
    spec::to_gherkin(&spec::FeatSpec { uid: 0, name: format!("feat f0 {name}"), tags: Vec::new(), bg: Vec::new(), scenarios: vec![sc], rules: Vec::new(), path: None })
}

async fn nw_inner_run() {
    let inner = runner::Basic::<NW>::default()
        .given(Regex::new("^inner ok$").unwrap(), nw_ok)
        .given(Regex::new("^inner boom$").unwrap(), nw_boom);
    let evs = inner.run(futures::stream::iter(vec![Ok(nw_feature("inner", &["inner ok", "inner boom"]))]), RunnerCli::default());
    evs.for_each(|_| futures::future::ready(())).await;
}

fn nw_nested(_: &mut NW, _: cucumber::step::Context) -> futures::future::LocalBoxFuture<'_, ()> {
    Box::pin(nw_inner_run())
}

/// An outer run one of whose steps (or whose after hook) drives a complete inner run; both have a
/// panicking step. Returns what the panic-hook clauses of C10 have to say about the OUTER run.
pub fn run_nested(idx: u64) -> Vec<(&'static str, &'static str, String)> {
    install_sentinel_hook();
    let hits0 = SENTINEL_HITS.load(Ordering::SeqCst);
    let base = runner::Basic::<NW>::default()
        .given(Regex::new("^outer ok$").unwrap(), nw_ok)
        .given(Regex::new("^outer boom$").unwrap(), nw_boom)
        .given(Regex::new("^nested run$").unwrap(), nw_nested);
    let in_hook = idx % 2 == 1;
    let feats = vec![Ok(nw_feature("outer", if in_hook { &["outer ok", "outer boom"][..] } else { &["outer ok", "nested run", "outer boom"][..] }))];
    IN_RUN.store(true, Ordering::SeqCst);
    let evs: Result<Vec<_>, _> = panic::catch_unwind(AssertUnwindSafe(|| {
        if in_hook {
            let r = base.after(|_, _, _, _, _| Box::pin(nw_inner_run()));
            futures::executor::block_on(r.run(futures::stream::iter(feats), RunnerCli::default()).collect::<Vec<_>>())
        } else {
            futures::executor::block_on(base.run(futures::stream::iter(feats), RunnerCli::default()).collect::<Vec<_>>())
        }
    }));
    IN_RUN.store(false, Ordering::SeqCst);
    let during = SENTINEL_HITS.load(Ordering::SeqCst) - hits0;
    let h1 = SENTINEL_HITS.load(Ordering::SeqCst);
    let _ = panic::catch_unwind(|| panic::panic_any(Probe));
    let restored = SENTINEL_HITS.load(Ordering::SeqCst) == h1 + 1;
    let mut v = Vec::new();
    let place = if in_hook { "after hook" } else { "step" };
    match evs {
        Err(_) => v.push(("C10", "panic:escaped", format!("a run nested in a {place} of another run: a panic escaped the outer run"))),
        Ok(evs) => {
            if !matches!(evs.last(), Some(Ok(e)) if matches!(e.value, cucumber::event::Cucumber::Finished)) {
                v.push(("C10", "panic:no-run-finished", format!("a run nested in a {place} of another run: the outer stream did not end with run-Finished")));
            }
        }
    }
    if during != 0 {
        v.push(("C10", "panic:hook-invoked-during-run", format!("a run nested in a {place} of another run: the process panic hook was invoked {during} time(s) during the outer run")));
    }
    if !restored {
        v.push(("C10", "panic:hook-not-restored", format!("a run nested in a {place} of another run: after the outer run the hook installed before it is not in place")));
    }
    v
}

/// The lazy parser stream of a case (for callers that build their own pipeline).
pub fn parser_for(case: &CaseSpec) -> (LazyParser, Rc<RefCell<ParserShared>>) {
    let shared = Rc::new(RefCell::new(ParserShared::default()));
    (lazy_parser(case, Rc::clone(&shared)), shared)
}

/// Drives any stream of events produced on top of the instrumented World with
/// the gate scheduler. `world::reset` must have been called by the caller.
pub fn drive(
    case: &CaseSpec,
    shared: Rc<RefCell<ParserShared>>,
    mut stream: LocalBoxStream<'static, Item>,
) -> RunOutput {
    install_sentinel_hook();
    let hits0 = SENTINEL_HITS.load(Ordering::SeqCst);

    let fw = Arc::new(FlagWaker { woken: AtomicBool::new(false), thread: thread::current() });
    let waker = Waker::from(Arc::clone(&fw));
    let mut cx = Context::from_waker(&waker);

    let mut rng = Rng::new(case.sched_seed);
    let mut out = RunOutput {
        items: Vec::new(),
        evs: Vec::new(),
        cbs: Vec::new(),
        pulls: Vec::new(),
        qpoints: Vec::new(),
        polls: 0,
        max_self_wake_streak: 0,
        end: End::Ended,
        polls_after_last_progress: 0,
        sentinel_hits_during: 0,
        hook_restored: false,
        items_after_end: 0,
        sched_hash: 0xcbf2_9ce4_8422_2325,
        wall: Duration::ZERO,
        parked: 0,
        busy_idle_polls: 0,
        multi_releases: 0,
        outside_logs: 0,
    };
    let t0 = Instant::now();
    let mut streak: u64 = 0;
    let mut last_progress_seq = 0u64;
    let mut starved: Option<u32> = None;
    let has_delay = true; // a retry timer thread may exist; decided by waiting
    IN_RUN.store(true, Ordering::SeqCst);

    loop {
        fw.woken.store(false, Ordering::SeqCst);
        HEARTBEAT.fetch_add(1, Ordering::Relaxed);
        out.polls += 1;
        with_rs(|rs| rs.poll = out.polls);
        let res = panic::catch_unwind(AssertUnwindSafe(|| stream.as_mut().poll_next(&mut cx)));
        HEARTBEAT.fetch_add(1, Ordering::Relaxed);
        let res = match res {
            Ok(r) => r,
            Err(p) => {
                out.end = End::PanicEscaped(format!("{:?}", evrec::payload_of(&Arc::from(p))));
                break;
            }
        };
        match res {
            Poll::Ready(Some(item)) => {
                let (seq, q) = with_rs(|rs| (rs.seq, rs.q));
                let idx = out.items.len();
                out.evs.push(evrec::fingerprint(&item, idx, seq, q, out.polls));
                out.items.push(item);
                shared.borrow_mut().n_events = out.items.len();
                streak = 0;
            }
            Poll::Ready(None) => {
                out.end = End::Ended;
                break;
            }
            Poll::Pending => {
                let seq = with_rs(|rs| rs.seq);
                // Re-polls of a scheduler-pending parser are not progress.
                let npulls = shared.borrow().pulls.iter().filter(|p| p.what != "pending-sched-again").count() as u64;
                let progress = seq + npulls + out.items.len() as u64;
                let woken = fw.woken.load(Ordering::SeqCst);
                if woken {
                    if progress != last_progress_seq {
                        last_progress_seq = progress;
                        streak = 0;
                        continue;
                    }
                    streak += 1;
                    out.max_self_wake_streak = out.max_self_wake_streak.max(streak);
                    // A runner that keeps waking itself without doing anything
                    // (cooperative busy-wait) is treated as quiescent after a
                    // few idle polls, so the scheduler can act.
                    if streak < BUSY_QUIESCENT_POLLS {
                        continue;
                    }
                    if streak > LIVELOCK_POLLS {
                        out.end = End::Livelock { polls: streak };
                        break;
                    }
                }
                // ---- quiescent point ----
                let busy = woken;
                if !busy {
                    streak = 0;
                }
                last_progress_seq = progress;
                let (q, blocked) = with_rs(|rs| {
                    let q = rs.q;
                    (q, rs.gates.iter().filter(|g| !g.released).map(|g| g.owner).collect::<Vec<_>>())
                });
                let (parser_waiting, parser_ended) = {
                    let sh = shared.borrow();
                    (sh.waiting.is_some() && !sh.deliver, sh.ended)
                };
                let mut qp = QPoint {
                    q,
                    seq,
                    n_events: out.items.len(),
                    blocked: blocked.clone(),
                    parser_waiting,
                    parser_ended,
                    decision: String::new(),
                    t: Instant::now(),
                    busy,
                };
                if case.sched_sleep_pct > 0
                    && !blocked.is_empty()
                    && rng.below(100) < case.sched_sleep_pct as usize
                {
                    let ms = rng.range(1, 8) as u64;
                    thread::sleep(Duration::from_millis(ms));
                    qp.decision = format!("sleep:{ms}+");
                }
                // postponed in-span logs (a detached task logging in a step's span)
                let (n_deferred, n_logging) = with_rs(|rs| (rs.deferred.len(), rs.deferred.iter().filter(|d| d.n > 0).count()));
                let idle = blocked.is_empty() && !parser_waiting;
                if (n_deferred > 0 && idle) || (n_logging > 0 && rng.chance(1, 3)) {
                    // the worker holding the span may take real time (comparable to the retry delays)
                    if rng.chance(1, 2) {
                        thread::sleep(Duration::from_millis(3));
                    }
                    let owner = world::fire_deferred(idle);
                    qp.decision.push_str(&format!("deferred:{owner:?}"));
                    out.sched_hash = mix(out.sched_hash, 0xDEF);
                    with_rs(|rs| rs.q += 1);
                    out.qpoints.push(qp);
                    streak = 0;
                    continue;
                }
                // a log line emitted outside of any scenario span (as another thread or a detached
                // task of the test binary would): the collector hands it to every running scenario
                #[cfg(feature = "tracing")]
                if with_rs(|rs| rs.emit_logs) && out.outside_logs < 6 && (!blocked.is_empty() || parser_waiting) && rng.chance(1, 10) {
                    out.outside_logs += 1;
                    if with_rs(|rs| rs.log_loud) {
                        tracing::warn!("OUT:{}", out.outside_logs);
                    } else {
                        tracing::info!("OUT:{}", out.outside_logs);
                    }
                    qp.decision.push_str("outside-log");
                    out.sched_hash = mix(out.sched_hash, 0x0D7);
                    with_rs(|rs| rs.q += 1);
                    out.qpoints.push(qp);
                    streak = 0;
                    continue;
                }
                let can_gate = !blocked.is_empty();
                let choose_deliver = parser_waiting && (!can_gate || rng.chance(1, 3));
                if choose_deliver {
                    let w = {
                        let mut sh = shared.borrow_mut();
                        sh.deliver = true;
                        sh.waiting.clone()
                    };
                    qp.decision.push_str("deliver");
                    out.sched_hash = mix(out.sched_hash, 0xD311);
                    with_rs(|rs| rs.q += 1);
                    out.qpoints.push(qp);
                    if let Some(w) = w {
                        w.wake();
                    }
                    streak = 0;
                    continue;
                }
                if can_gate {
                    let pick = choose_gate(case.policy, &blocked, &mut rng, &mut starved);
                    let owner = blocked[pick];
                    qp.decision.push_str(&format!("gate:{owner}"));
                    out.sched_hash = mix(out.sched_hash, pick as u64 + 1);
                    let w = with_rs(|rs| {
                        rs.q += 1;
                        let g = rs
                            .gates
                            .iter_mut()
                            .filter(|g| !g.released)
                            .nth(pick)
                            .expect("gate");
                        g.released = true;
                        g.waker.clone()
                    });
                    let mut wakers = vec![w];
                    // now and then several gates open between two polls
                    if case.sched_multi_pct > 0 && blocked.len() > 1 && rng.below(100) < case.sched_multi_pct as usize {
                        let extra = rng.range(1, 2.min(blocked.len() - 1));
                        for _ in 0..extra {
                            let left = with_rs(|rs| rs.gates.iter().filter(|g| !g.released).count());
                            if left == 0 {
                                break;
                            }
                            let pick = rng.below(left);
                            let (owner, w) = with_rs(|rs| {
                                let g = rs.gates.iter_mut().filter(|g| !g.released).nth(pick).expect("gate");
                                g.released = true;
                                (g.owner, g.waker.clone())
                            });
                            qp.decision.push_str(&format!("+gate:{owner}"));
                            out.sched_hash = mix(out.sched_hash, 0xA000 + pick as u64);
                            out.multi_releases += 1;
                            wakers.push(w);
                        }
                    }
                    out.qpoints.push(qp);
                    for w in wakers {
                        w.wake();
                    }
                    streak = 0;
                    continue;
                }
                // Nothing the scheduler can do: only an external wake-up (retry
                // delay helper thread) can make progress.
                if busy {
                    // Nothing to release or deliver while the runner keeps
                    // waking itself: keep polling (bounded by LIVELOCK_POLLS).
                    out.busy_idle_polls += 1;
                    if streak % 256 == 0 {
                        thread::sleep(Duration::from_millis(1));
                    }
                    continue;
                }
                qp.decision.push_str("park");
                out.qpoints.push(qp);
                out.parked += 1;
                let wait = Duration::from_millis(if has_delay { 10_000 } else { 200 });
                let t = Instant::now();
                while !fw.woken.load(Ordering::SeqCst) && t.elapsed() < wait {
                    HEARTBEAT.fetch_add(1, Ordering::Relaxed);
                    thread::park_timeout(Duration::from_millis(50));
                }
                if !fw.woken.load(Ordering::SeqCst) {
                    // Try one spurious poll to classify: a runner that forgot
                    // to arrange its wake-up makes progress here.
                    let before = out.items.len();
                    let seq0 = with_rs(|rs| rs.seq);
                    let res2 = panic::catch_unwind(AssertUnwindSafe(|| {
                        stream.as_mut().poll_next(&mut cx)
                    }));
                    let rescued = match res2 {
                        Ok(Poll::Ready(Some(item))) => {
                            let (seq, q) = with_rs(|rs| (rs.seq, rs.q));
                            let idx = out.items.len();
                            out.evs.push(evrec::fingerprint(&item, idx, seq, q, out.polls));
                            out.items.push(item);
                            true
                        }
                        Ok(Poll::Ready(None)) => true,
                        Ok(Poll::Pending) => {
                            out.items.len() != before
                                || with_rs(|rs| rs.seq) != seq0
                                || fw.woken.load(Ordering::SeqCst)
                        }
                        Err(_) => false,
                    };
                    out.end = End::Stuck {
                        waited_ms: t.elapsed().as_millis() as u64,
                        rescued_by_spurious_poll: rescued,
                    };
                    break;
                }
                with_rs(|rs| rs.q += 1);
            }
        }
    }
    IN_RUN.store(false, Ordering::SeqCst);

    // After the stream ended it must stay ended.
    if out.end == End::Ended {
        for _ in 0..3 {
            if let Ok(Poll::Ready(Some(_))) =
                panic::catch_unwind(AssertUnwindSafe(|| stream.as_mut().poll_next(&mut cx)))
            {
                out.items_after_end += 1;
            }
        }
    }
    out.sentinel_hits_during = SENTINEL_HITS.load(Ordering::SeqCst) - hits0;
    drop(stream);

    // Is the hook that was installed before the run in place again?
    let h1 = SENTINEL_HITS.load(Ordering::SeqCst);
    let _ = panic::catch_unwind(|| panic::panic_any(Probe));
    out.hook_restored = SENTINEL_HITS.load(Ordering::SeqCst) == h1 + 1;

    out.pulls = std::mem::take(&mut shared.borrow_mut().pulls);
    out.cbs = with_rs(|rs| std::mem::take(&mut rs.log));
    out.wall = t0.elapsed();
    out
}

struct Probe;

fn mix(h: u64, v: u64) -> u64 {
    (h ^ v).wrapping_mul(0x0000_0100_0000_01b3)
}

fn choose_gate(
    policy: Policy,
    blocked: &[usize],
    rng: &mut Rng,
    starved: &mut Option<u32>,
) -> usize {
    let sc_of = |owner: usize| with_rs(|rs| rs.log[owner].sc_uid);
    match policy {
        Policy::Random => rng.below(blocked.len()),
        Policy::Fifo => 0,
        Policy::Lifo => blocked.len() - 1,
        Policy::StarveOne => {
            if starved.is_none() {
                *starved = blocked.iter().find_map(|o| sc_of(*o));
            }
            let others: Vec<usize> = (0..blocked.len())
                .filter(|i| sc_of(blocked[*i]).is_none() || sc_of(blocked[*i]) != *starved)
                .collect();
            if others.is_empty() { rng.below(blocked.len()) } else { *rng.pick(&others) }
        }
        Policy::SerialLast => {
            // release the gate whose owner entered last, except one time in four
            if rng.chance(1, 4) { rng.below(blocked.len()) } else { blocked.len() - 1 - rng.below(blocked.len().min(2)) }
        }
    }
}

/// In-poll spin watchdog: a thread that samples the main thread's CPU time
/// (from /proc) while the heartbeat does not move. `on_spin` is called (and
/// must not return) when >= `cpu_secs` seconds of main-thread CPU were burnt
/// inside a single `poll_next`.
pub fn spawn_watchdog(main_tid: u32, cpu_secs: f64, on_spin: impl Fn(u64, f64) + Send + 'static) {
    thread::spawn(move || {
        let ticks = 100.0; // sysconf(_SC_CLK_TCK) on Linux
        let cpu = || -> Option<f64> {
            let s = std::fs::read_to_string(format!("/proc/self/task/{main_tid}/stat")).ok()?;
            let rest = s.rsplit_once(')')?.1;
            let f: Vec<&str> = rest.split_whitespace().collect();
            let ut: f64 = f.get(11)?.parse().ok()?;
            let st: f64 = f.get(12)?.parse().ok()?;
            Some((ut + st) / ticks)
        };
        let mut last_hb = HEARTBEAT.load(Ordering::Relaxed);
        let mut cpu_at_last = cpu().unwrap_or(0.0);
        loop {
            thread::sleep(Duration::from_millis(100));
            let hb = HEARTBEAT.load(Ordering::Relaxed);
            let now = cpu().unwrap_or(cpu_at_last);
            if hb != last_hb || !IN_RUN.load(Ordering::SeqCst) {
                last_hb = hb;
                cpu_at_last = now;
                continue;
            }
            if now - cpu_at_last >= cpu_secs {
                on_spin(CUR_CASE.load(Ordering::SeqCst), now - cpu_at_last);
                return;
            }
        }
    });
}
