//! Monitors for the (mostly) pure parts: C15 filtering, C16 outline
//! expansion, C17 step matching, C18 retry option resolution. The real
//! functions are called on generated inputs and compared with small oracles
//! written from the property statements.

use std::{cell::RefCell, collections::BTreeSet, path::PathBuf, rc::Rc};

use cucumber::{
    Cucumber, Parser, Runner, cli,
    event::Retries,
    feature::Ext as _,
    gherkin::{self, tagexpr::TagOperation},
    parser,
    runner::basic::{Cli as RunnerCli, RetryOptions},
    step,
    tag::Ext as _,
};
use futures::{StreamExt as _, executor::block_on, future::LocalBoxFuture, stream::LocalBoxStream};
use regex::Regex;
use serde_json::json;

use crate::{
    evrec::Item,
    recw::Collect,
    report::Tally,
    rng::{Rng, fnv},
    world::TW,
};

fn lc(line: usize, col: usize) -> gherkin::LineCol {
    gherkin::LineCol { line, col }
}
fn span() -> gherkin::Span {
    gherkin::Span { start: 0, end: 0 }
}

// (with twins that differ in letter case only: different tags)
const TAGS: &[&str] = &["a", "b", "c", "wip", "slow", "x.y", "ab", "slower", "A", "WIP", "Slow"];

fn rand_tags(r: &mut Rng) -> Vec<String> {
    let n = r.below(3);
    (0..n).map(|_| (*r.pick(TAGS)).to_owned()).collect()
}

// ---------------------------------------------------------------------------
// tag expressions

#[derive(Clone, Debug)]
enum Ast {
    Tag(String),
    Not(Box<Ast>),
    And(Box<Ast>, Box<Ast>),
    Or(Box<Ast>, Box<Ast>),
}

fn rand_ast(r: &mut Rng, depth: usize) -> Ast {
    if depth == 0 || r.chance(1, 3) {
        return Ast::Tag((*r.pick(TAGS)).to_owned());
    }
    match r.below(3) {
        0 => Ast::Not(Box::new(rand_ast(r, depth - 1))),
        1 => Ast::And(Box::new(rand_ast(r, depth - 1)), Box::new(rand_ast(r, depth - 1))),
        _ => Ast::Or(Box::new(rand_ast(r, depth - 1)), Box::new(rand_ast(r, depth - 1))),
    }
}

fn to_op(a: &Ast) -> TagOperation {
    match a {
        Ast::Tag(t) => TagOperation::Tag(t.clone()),
        Ast::Not(x) => TagOperation::Not(Box::new(to_op(x))),
        Ast::And(x, y) => TagOperation::And(Box::new(to_op(x)), Box::new(to_op(y))),
        Ast::Or(x, y) => TagOperation::Or(Box::new(to_op(x)), Box::new(to_op(y))),
    }
}

fn eval_ast(a: &Ast, tags: &[&str]) -> bool {
    match a {
        Ast::Tag(t) => tags.contains(&t.as_str()),
        Ast::Not(x) => !eval_ast(x, tags),
        Ast::And(x, y) => eval_ast(x, tags) && eval_ast(y, tags),
        Ast::Or(x, y) => eval_ast(x, tags) || eval_ast(y, tags),
    }
}

fn render_ast(a: &Ast) -> String {
    match a {
        Ast::Tag(t) => format!("@{t}"),
        // fully parenthesized: precedence of the (trusted) tagexpr parser is not under test
        Ast::Not(x) => format!("(not ({}))", render_ast(x)),
        Ast::And(x, y) => format!("({} and {})", render_ast(x), render_ast(y)),
        Ast::Or(x, y) => format!("({} or {})", render_ast(x), render_ast(y)),
    }
}

// ---------------------------------------------------------------------------
// small random features (struct literals)

fn mk_step(line: usize, text: &str) -> gherkin::Step {
    gherkin::Step {
        keyword: "Given ".into(),
        ty: gherkin::StepType::Given,
        value: text.to_owned(),
        docstring: None,
        table: None,
        span: span(),
        position: lc(line, 5),
    }
}

fn mk_scenario(line: &mut usize, name: String, tags: Vec<String>, nsteps: usize) -> gherkin::Scenario {
    *line += 1;
    let l = *line;
    gherkin::Scenario {
        keyword: "Scenario".into(),
        name,
        description: None,
        steps: (0..nsteps)
            .map(|i| {
                *line += 1;
                mk_step(*line, &format!("step {i}"))
            })
            .collect(),
        examples: Vec::new(),
        tags,
        span: span(),
        position: lc(l, 3),
    }
}

fn rand_feature(r: &mut Rng, fi: usize) -> gherkin::Feature {
    let mut line = 1;
    let names = ["alpha", "beta", "gamma one", "delta-2", "Alpha beta", "omega"];
    let sc = |r: &mut Rng, line: &mut usize| {
        let name = format!("{} {}", r.pick(&names), r.below(4));
        mk_scenario(line, name, rand_tags(r), r.below(3))
    };
    let scenarios = (0..r.below(4)).map(|_| sc(r, &mut line)).collect();
    let rules = (0..r.below(3))
        .map(|ri| {
            line += 1;
            let l = line;
            gherkin::Rule {
                keyword: "Rule".into(),
                name: format!("rule {ri}"),
                description: None,
                background: r.chance(1, 3).then(|| gherkin::Background {
                    keyword: "Background".into(),
                    name: String::new(),
                    description: None,
                    steps: vec![mk_step(l, "rule bg")],
                    span: span(),
                    position: lc(l, 3),
                }),
                scenarios: (0..r.below(3)).map(|_| sc(r, &mut line)).collect(),
                tags: rand_tags(r),
                span: span(),
                position: lc(l, 3),
            }
        })
        .collect();
    gherkin::Feature {
        keyword: "Feature".into(),
        name: format!("feature {fi}"),
        description: r.chance(1, 4).then(|| "some description".to_owned()),
        background: r.chance(1, 3).then(|| gherkin::Background {
            keyword: "Background".into(),
            name: String::new(),
            description: None,
            steps: vec![mk_step(2, "feature bg")],
            span: span(),
            position: lc(2, 3),
        }),
        scenarios,
        rules,
        tags: rand_tags(r),
        span: span(),
        position: lc(1, 1),
        path: r.chance(1, 2).then(|| PathBuf::from(format!("/virt/p{fi}.feature"))),
    }
}

// ---------------------------------------------------------------------------
// C15

/// A scenario outline with 2-3 Examples blocks carrying (mostly different) tags.
fn c15_outline(r: &mut Rng, line: &mut usize, k: usize) -> gherkin::Scenario {
    *line += 1;
    let l = *line;
    let examples = (0..r.range(2, 3))
        .map(|_| {
            *line += 2;
            let el = *line;
            let nrows = r.range(1, 2);
            let mut rows = vec![vec!["a".to_owned()]];
            for i in 0..nrows {
                rows.push(vec![format!("v{i}")]);
            }
            *line += nrows + 1;
            gherkin::Examples {
                keyword: "Examples".into(),
                name: None,
                description: None,
                table: Some(gherkin::Table { rows, span: span(), position: lc(el + 1, 7) }),
                tags: rand_tags(r),
                span: span(),
                position: lc(el, 5),
            }
        })
        .collect();
    gherkin::Scenario {
        keyword: "Scenario Outline".into(),
        name: format!("outl alpha {k} <a>"),
        description: None,
        steps: vec![mk_step(l + 1, "step <a>")],
        examples,
        tags: rand_tags(r),
        span: span(),
        position: lc(l, 3),
    }
}

#[derive(Clone)]
struct VecParser(Vec<parser::Result<gherkin::Feature>>);

impl Parser<()> for VecParser {
    type Cli = cli::Empty;
    type Output = futures::stream::Iter<std::vec::IntoIter<parser::Result<gherkin::Feature>>>;
    fn parse(self, (): (), _: cli::Empty) -> Self::Output {
        futures::stream::iter(self.0)
    }
}

#[derive(Clone, Default)]
struct RecRunner(Rc<RefCell<Vec<parser::Result<gherkin::Feature>>>>);

impl Runner<TW> for RecRunner {
    type Cli = cli::Empty;
    type EventStream = LocalBoxStream<'static, Item>;
    fn run<S>(self, features: S, _: cli::Empty) -> Self::EventStream
    where
        S: futures::Stream<Item = parser::Result<gherkin::Feature>> + 'static,
    {
        let sink = self.0;
        features
            .filter_map(move |f| {
                sink.borrow_mut().push(f);
                async { None }
            })
            .boxed_local()
    }
}

type Opts = cli::Opts<cli::Empty, cli::Empty, cli::Empty, cli::Empty>;

/// The filter sources through the stock file parser: `Cucumber<_, parser::Basic, ..>` with the
/// options given through `with_cli()` and, after it, the builder methods that only that facade has.
fn c15_file(r: &mut Rng, idx: u64, t: &mut Tally, workdir: &str) {
    let dir = format!("{workdir}/c15_{}_{idx}", std::process::id());
    std::fs::create_dir_all(&dir).expect("mkdir");
    let path = format!("{dir}/filt.feature");
    let names = ["alpha", "beta", "gamma one", "delta-2", "Alpha beta", "omega"];
    let tagline = |tags: &[String], ind: &str| if tags.is_empty() { String::new() } else { format!("{ind}{}\n", tags.iter().map(|t| format!("@{t}")).collect::<Vec<_>>().join(" ")) };
    let ftags = rand_tags(r);
    let mut text = format!("{}Feature: filt\n\n", tagline(&ftags, ""));
    // (name, inherited tags) in file order
    let mut all: Vec<(String, Vec<String>)> = Vec::new();
    for i in 0..r.range(1, 4) {
        let tags = rand_tags(r);
        let name = format!("{} {i}", r.pick(&names));
        text.push_str(&format!("{}  Scenario: {name}\n    Given step {i}\n\n", tagline(&tags, "  ")));
        all.push((name, ftags.iter().chain(&tags).cloned().collect()));
    }
    for ri in 0..r.below(3) {
        let rtags = rand_tags(r);
        text.push_str(&format!("{}  Rule: r{ri}\n\n", tagline(&rtags, "  ")));
        for i in 0..r.range(1, 3) {
            let tags = rand_tags(r);
            let name = format!("{} r{ri}{i}", r.pick(&names));
            text.push_str(&format!("{}    Scenario: {name}\n      Given step\n\n", tagline(&tags, "    ")));
            all.push((name, ftags.iter().chain(&rtags).chain(&tags).cloned().collect()));
        }
    }
    std::fs::write(&path, &text).expect("write feature");
    let name_re = r.chance(1, 3).then(|| (*r.pick(&["alpha", "^beta", "a [0-2]$", "one|two|omega", "(?i)ALPHA"])).to_owned());
    let tag_ast = (name_re.is_none() && r.chance(2, 3)).then(|| rand_ast(r, 3));
    let k = r.range(1, 3);
    let closure = move |_f: &gherkin::Feature, _r: Option<&gherkin::Rule>, s: &gherkin::Scenario| s.name.len() % k == 0;
    type FOpts = cli::Opts<cucumber::parser::basic::Cli, cli::Empty, cli::Empty, cli::Empty>;
    let mut opts = FOpts::default();
    opts.re_filter = name_re.as_ref().map(|re| Regex::new(re).unwrap());
    opts.tags_filter = tag_ast.as_ref().map(to_op);
    let rec = RecRunner::default();
    let cuc = Cucumber::<TW, parser::Basic, PathBuf, RecRunner, Collect, cli::Empty>::custom(parser::Basic::new(), rec.clone(), Collect::default()).with_cli(opts);
    let chain = r.below(4);
    match chain {
        1 => drop(block_on(cuc.language("en").expect("en").filter_run(PathBuf::from(&path), closure))),
        2 => drop(block_on(cuc.language("en").expect("en").fail_on_skipped().filter_run(PathBuf::from(&path), closure))),
        3 => drop(block_on(cuc.repeat_failed().language("en").expect("en").filter_run(PathBuf::from(&path), closure))),
        _ => drop(block_on(cuc.filter_run(PathBuf::from(&path), closure))),
    }
    let _ = std::fs::remove_dir_all(&dir);
    t.count("c15.file_parser_runs", 1);
    let got: Vec<String> = rec
        .0
        .borrow()
        .iter()
        .filter_map(|f| f.as_ref().ok())
        .flat_map(|f| f.scenarios.iter().map(|s| s.name.clone()).chain(f.rules.iter().flat_map(|r| r.scenarios.iter().map(|s| s.name.clone()))).collect::<Vec<_>>())
        .collect();
    let re = name_re.as_ref().map(|s| Regex::new(s).unwrap());
    let exp: Vec<String> = all
        .iter()
        .filter(|(name, tags)| {
            if let Some(re) = &re {
                re.is_match(name)
            } else if let Some(a) = &tag_ast {
                eval_ast(a, &tags.iter().map(String::as_str).collect::<Vec<_>>())
            } else {
                name.len() % k == 0
            }
        })
        .map(|(n, _)| n.clone())
        .collect();
    if got != exp {
        let which = if name_re.is_some() { "name" } else if tag_ast.is_some() { "tags" } else { "closure" };
        t.violation(
            "C15",
            &format!("filter:{which}"),
            format!("[file parser, builder chain {chain}] runner received {got:?}, the active filter ({which}; name={name_re:?} tags={:?}) accepts {exp:?}", tag_ast.as_ref().map(render_ast)),
            idx,
            json!({"feature": text}),
        );
    }
    if !exp.is_empty() && exp.len() < all.len() {
        t.nontrivial_case("C15");
        t.nontrivial("C15", fnv(&format!("file|{name_re:?}|{:?}|{chain}|{}|{}", tag_ast.as_ref().map(render_ast), exp.len(), all.len())));
    }
}

pub fn c15(seed: u64, idx: u64, t: &mut Tally, workdir: &str) {
    let mut r = Rng::new(seed.wrapping_mul(1_000_003).wrapping_add(idx));
    t.evaluations += 1;
    if idx % 8 == 5 {
        return c15_file(&mut r, idx, t, workdir);
    }

    // (1) tag expression evaluator vs an independent recursive one
    for _ in 0..6 {
        let ast = rand_ast(&mut r, 4);
        let op = to_op(&ast);
        let tags = rand_tags(&mut r);
        let tags_ref: Vec<&str> = tags.iter().map(String::as_str).collect();
        let got = op.eval(tags.iter());
        let exp = eval_ast(&ast, &tags_ref);
        t.count("c15.tag_evals", 1);
        if got != exp {
            t.violation("C15", "filter:tag-eval", format!("`{}` over tags {tags:?}: eval() = {got}, boolean formula = {exp}", render_ast(&ast)), idx, json!(null));
        }
    }

    // (2) filtering through Cucumber::custom with a recording runner
    let mut expanded_rows = 0u64;
    let feats: Vec<gherkin::Feature> = (0..r.range(1, 3))
        .map(|i| {
            let mut f = rand_feature(&mut r, i);
            // now and then scenario outlines with several, differently tagged Examples blocks,
            // expanded as the parser does it: every row keeps a copy of *all* blocks
            if r.chance(1, 3) {
                let mut line = 500;
                for k in 0..r.range(1, 2) {
                    let o = c15_outline(&mut r, &mut line, k);
                    let nr = f.rules.len();
                    if nr > 0 && r.chance(1, 2) {
                        let at = r.below(nr);
                        let pos = r.below(f.rules[at].scenarios.len() + 1);
                        f.rules[at].scenarios.insert(pos, o);
                    } else {
                        let pos = r.below(f.scenarios.len() + 1);
                        f.scenarios.insert(pos, o);
                    }
                }
                let before = f.scenarios.len() + f.rules.iter().map(|r| r.scenarios.len()).sum::<usize>();
                f = f.expand_examples().expect("outline without unknown placeholders");
                let after = f.scenarios.len() + f.rules.iter().map(|r| r.scenarios.len()).sum::<usize>();
                expanded_rows += (after + 2).saturating_sub(before) as u64;
            }
            f
        })
        .collect();
    t.count("c15.features_with_expanded_outline_rows", u64::from(expanded_rows > 0));
    let name_re = r.chance(1, 3).then(|| (*r.pick(&["alpha", "^beta", "a [0-2]$", "one|two|omega", "(?i)ALPHA", "z{3}"])).to_owned());
    let tag_ast = r.chance(1, 2).then(|| rand_ast(&mut r, 3));
    // --name and --tags conflict on the command line; as struct fields both may be set
    let via_argv = r.chance(1, 2) && !(name_re.is_some() && tag_ast.is_some());
    let closure_mod = r.range(1, 3);
    let closure = move |_f: &gherkin::Feature, _r: Option<&gherkin::Rule>, s: &gherkin::Scenario| s.position.line % closure_mod == 0;

    let opts: Opts = if via_argv {
        let mut argv: Vec<String> = vec!["prog".into()];
        if let Some(re) = &name_re {
            argv.push("--name".into());
            argv.push(re.clone());
        }
        if let Some(a) = &tag_ast {
            argv.push("--tags".into());
            argv.push(render_ast(a));
        }
        match <Opts as cli::Parser>::try_parse_from(&argv) {
            Ok(o) => o,
            Err(e) => {
                t.violation("C15", "filter:cli-parse", format!("argv {argv:?} rejected: {e}"), idx, json!(null));
                return;
            }
        }
    } else {
        let mut o = Opts::default();
        o.re_filter = name_re.as_ref().map(|re| Regex::new(re).unwrap());
        o.tags_filter = tag_ast.as_ref().map(to_op);
        o
    };
    if r.chance(1, 10) {
        let both = <Opts as cli::Parser>::try_parse_from(["prog", "--name", "x", "--tags", "@a"]);
        if both.is_ok() {
            t.violation("C15", "filter:name-and-tags-accepted", "`--name` together with `--tags` was accepted".into(), idx, json!(null));
        }
    }

    let rec = RecRunner::default();
    let input: Vec<parser::Result<gherkin::Feature>> = feats.iter().cloned().map(Ok).collect();
    let cuc = Cucumber::<TW, VecParser, (), RecRunner, Collect, cli::Empty>::custom(VecParser(input), rec.clone(), Collect::default())
        .with_cli(opts);
    // builder methods that wrap the writer keep what with_cli() was given
    let chain = r.below(7);
    match chain {
        1 => drop(block_on(cuc.fail_on_skipped().filter_run((), closure))),
        2 => drop(block_on(cuc.fail_on_skipped_with(|_, _, _| true).filter_run((), closure))),
        3 => drop(block_on(cuc.repeat_skipped().filter_run((), closure))),
        4 => drop(block_on(cuc.repeat_failed().filter_run((), closure))),
        5 => drop(block_on(cuc.repeat_if(|_| false).filter_run((), closure))),
        _ => drop(block_on(cuc.filter_run((), closure))),
    }
    if chain >= 1 && chain <= 5 {
        t.count("c15.runs_with_a_writer_wrapper_added_after_with_cli", 1);
    }
    let got: Vec<gherkin::Feature> = rec.0.borrow().iter().filter_map(|f| f.as_ref().ok().cloned()).collect();

    let re = name_re.as_ref().map(|s| Regex::new(s).unwrap());
    let accept = |f: &gherkin::Feature, rule: Option<&gherkin::Rule>, s: &gherkin::Scenario| -> bool {
        if let Some(re) = &re {
            re.is_match(&s.name)
        } else if let Some(a) = &tag_ast {
            let tags: Vec<&str> = f
                .tags
                .iter()
                .chain(rule.iter().flat_map(|r| &r.tags))
                .chain(&s.tags)
                .map(String::as_str)
                .collect();
            eval_ast(a, &tags)
        } else {
            s.position.line % closure_mod == 0
        }
    };
    let mut kept = 0;
    let mut dropped = 0;
    let exp: Vec<gherkin::Feature> = feats
        .iter()
        .map(|f| {
            let mut g = f.clone();
            g.scenarios = f.scenarios.iter().filter(|s| accept(f, None, s)).cloned().collect();
            for (gr, fr) in g.rules.iter_mut().zip(&f.rules) {
                gr.scenarios = fr.scenarios.iter().filter(|s| accept(f, Some(fr), s)).cloned().collect();
            }
            let n = g.scenarios.len() + g.rules.iter().map(|r| r.scenarios.len()).sum::<usize>();
            let total = f.scenarios.len() + f.rules.iter().map(|r| r.scenarios.len()).sum::<usize>();
            kept += n;
            dropped += total - n;
            g
        })
        .collect();
    if got != exp {
        let names = |fs: &[gherkin::Feature]| -> Vec<Vec<String>> {
            fs.iter()
                .map(|f| f.scenarios.iter().map(|s| s.name.clone()).chain(f.rules.iter().flat_map(|r| r.scenarios.iter().map(|s| format!("{}/{}", r.name, s.name)))).collect())
                .collect()
        };
        let which = if name_re.is_some() { "name" } else if tag_ast.is_some() { "tags" } else { "closure" };
        t.violation(
            "C15",
            &format!("filter:{which}"),
            format!(
                "runner received scenarios {:?}, the active filter ({which}; name={name_re:?} tags={:?} via_argv={via_argv}) accepts {:?}{}",
                names(&got),
                tag_ast.as_ref().map(render_ast),
                names(&exp),
                if names(&got) == names(&exp) { " - same scenarios but the rest of a feature was altered" } else { "" }
            ),
            idx,
            json!(null),
        );
    }
    // ... and the same through the stock runner, configured by the `Cucumber`-level builder methods after
    // `with_cli()` (some of them rebuild the whole value): what the runner starts is what the filter accepts
    if idx % 5 == 3 {
        use cucumber::{event, runner};
        use futures::FutureExt as _;
        type BOpts = cli::Opts<cli::Empty, runner::basic::Cli, cli::Empty, cli::Empty>;
        let mut o = BOpts::default();
        o.re_filter = name_re.as_ref().map(|re| Regex::new(re).unwrap());
        o.tags_filter = tag_ast.as_ref().map(to_op);
        let coll = Collect::default();
        let input: Vec<parser::Result<gherkin::Feature>> = feats.iter().cloned().map(Ok).collect();
        let cuc = Cucumber::<TW, VecParser, (), runner::Basic<TW>, Collect, cli::Empty>::custom(VecParser(input), runner::Basic::default(), coll.clone()).with_cli(o);
        let method = r.below(4);
        match method {
            0 => drop(block_on(cuc.which_scenario(|_, _, _| runner::basic::ScenarioType::Concurrent).filter_run((), closure))),
            1 => drop(block_on(cuc.before(|_, _, _, _| async {}.boxed_local()).retries(1).filter_run((), closure))),
            2 => drop(block_on(cuc.max_concurrent_scenarios(2).after(|_, _, _, _, _| async {}.boxed_local()).filter_run((), closure))),
            _ => drop(block_on(cuc.retry_options(|_, _, _, _| None).max_concurrent_scenarios(3).filter_run((), closure))),
        }
        t.count("c15.runs_through_the_stock_runner_configured_after_with_cli", 1);
        let mut started: Vec<String> = coll
            .0
            .borrow()
            .iter()
            .filter_map(|it| it.as_ref().ok())
            .filter_map(|e| match &e.value {
                event::Cucumber::Feature(f, event::Feature::Scenario(s, ev)) if matches!(ev.event, event::Scenario::Started) => Some(format!("{}//{}", f.name, s.name)),
                event::Cucumber::Feature(f, event::Feature::Rule(rl, event::Rule::Scenario(s, ev))) if matches!(ev.event, event::Scenario::Started) => Some(format!("{}/{}/{}", f.name, rl.name, s.name)),
                _ => None,
            })
            .collect();
        let mut want: Vec<String> = exp
            .iter()
            .flat_map(|f| f.scenarios.iter().map(|s| format!("{}//{}", f.name, s.name)).chain(f.rules.iter().flat_map(|rl| rl.scenarios.iter().map(|s| format!("{}/{}/{}", f.name, rl.name, s.name)))).collect::<Vec<_>>())
            .collect();
        started.sort();
        want.sort();
        if started != want {
            let which = if name_re.is_some() { "name" } else if tag_ast.is_some() { "tags" } else { "closure" };
            t.violation(
                "C15",
                &format!("filter:{which}:stock-runner"),
                format!("the stock runner (builder method {method} after with_cli) started {started:?}, the active filter ({which}; name={name_re:?} tags={:?}) accepts {want:?}", tag_ast.as_ref().map(render_ast)),
                idx,
                json!(null),
            );
        }
    }
    if kept > 0 && dropped > 0 {
        t.nontrivial_case("C15");
        t.nontrivial("C15", fnv(&format!("{name_re:?}|{:?}|{via_argv}|{kept}|{dropped}|{}", tag_ast.as_ref().map(render_ast), feats.len())));
    }
    t.sample("c15", 2, || json!({"case_index": idx, "name": name_re, "tags": tag_ast.as_ref().map(render_ast), "via_argv": via_argv, "kept": kept, "dropped": dropped}));
}

// ---------------------------------------------------------------------------
// C16

/// Single-pass scanner for `<name>` placeholders (name: no whitespace, no `>`).
/// Returns Err(name) for the first placeholder without a column.
fn substitute(s: &str, header: &[String], row: &[String]) -> Result<String, String> {
    let chars: Vec<char> = s.chars().collect();
    let mut out = String::new();
    let mut i = 0;
    let mut err = None;
    while i < chars.len() {
        if chars[i] == '<' {
            let mut j = i + 1;
            while j < chars.len() && chars[j] != '>' && !chars[j].is_whitespace() {
                j += 1;
            }
            if j > i + 1 && j < chars.len() && chars[j] == '>' {
                let name: String = chars[i + 1..j].iter().collect();
                match header.iter().position(|h| *h == name) {
                    Some(c) => out.push_str(row.get(c).map_or("", String::as_str)),
                    None => {
                        if err.is_none() {
                            err = Some(name);
                        }
                    }
                }
                i = j + 1;
                continue;
            }
        }
        out.push(chars[i]);
        i += 1;
    }
    match err {
        Some(e) => Err(e),
        None => Ok(out),
    }
}

const COLS: &[&str] = &["a", "b", "count", "x<y", "é", "n-1", "$1"];
const VALS: &[&str] = &["1", "two", "<b>", ">", "$0", "\\d+", "(x)*", "", "a b", "<a>", "é"];

fn outline(r: &mut Rng, line: &mut usize, name_i: usize, unknown: bool) -> (gherkin::Scenario, usize) {
    *line += 1;
    let l = *line;
    let ncols = r.range(1, 3);
    let mut cols: Vec<String> = Vec::new();
    while cols.len() < ncols {
        let c = (*r.pick(COLS)).to_owned();
        if !cols.contains(&c) {
            cols.push(c);
        }
    }
    let ph = |r: &mut Rng| -> String {
        if unknown && r.chance(1, 3) { "<nope>".to_owned() } else { format!("<{}>", r.pick(&cols)) }
    };
    let texty = |r: &mut Rng, base: &str| -> String {
        match r.below(11) {
            // a name may contain no whitespace, non-ASCII whitespace included: not a placeholder
            9 => format!("{base} <first\u{a0}name> {} <x\u{3000}y>", ph(r)),
            10 => format!("<{}\u{2003}{}>{}", r.pick(&cols), r.pick(&cols), ph(r)),
            // `<>` is no placeholder (empty name), whatever follows it
            6 => format!("{base}<>{}", ph(r)),
            7 => format!("<>>{} <> {base}", ph(r)),
            8 => format!("{}<><>> {}<>", ph(r), ph(r)),
            0 => base.to_owned(),
            1 => format!("{base} {}", ph(r)),
            2 => format!("{}{}", ph(r), ph(r)),
            3 => format!("{base} < {} > <not closed {}", ph(r), ph(r)),
            4 => format!("<{}", ph(r)),
            _ => format!("{} mid {} end", ph(r), ph(r)),
        }
    };
    let nsteps = r.range(1, 3);
    let steps: Vec<gherkin::Step> = (0..nsteps)
        .map(|i| {
            *line += 1;
            let mut st = mk_step(*line, &texty(r, &format!("step {i}")));
            if r.chance(1, 3) {
                st.docstring = Some(texty(r, "doc"));
            }
            if r.chance(1, 3) {
                st.table = Some(gherkin::Table { rows: vec![vec![texty(r, "h"), "k".into()], vec![texty(r, "v"), ph(r)]], span: span(), position: lc(*line, 7) });
            }
            st
        })
        .collect();
    let ntables = r.range(1, 3);
    let mut rows_total = 0;
    let examples: Vec<gherkin::Examples> = (0..ntables)
        .map(|_| {
            *line += 2;
            let el = *line;
            let nrows = if r.chance(1, 5) { 0 } else { r.range(1, 3) };
            rows_total += nrows;
            let mut rows = vec![cols.clone()];
            for _ in 0..nrows {
                rows.push(cols.iter().map(|_| (*r.pick(VALS)).to_owned()).collect());
            }
            *line += nrows + 1;
            gherkin::Examples {
                keyword: "Examples".into(),
                name: None,
                description: None,
                table: if r.chance(1, 12) { None } else { Some(gherkin::Table { rows, span: span(), position: lc(el + 1, 7) }) },
                tags: rand_tags(r),
                span: span(),
                position: lc(el, 5),
            }
        })
        .collect();
    (
        gherkin::Scenario {
            // Examples are allowed under all four keywords (Gherkin 6+); the parser records the one written
            keyword: (*r.pick(&["Scenario Outline", "Scenario Outline", "Scenario Template", "Scenario", "Example"])).into(),
            name: texty(r, &format!("outline {name_i}")),
            description: None,
            steps,
            examples,
            tags: rand_tags(r),
            span: span(),
            position: lc(l, 3),
        },
        rows_total,
    )
}

/// The oracle's own expansion of one scenario.
fn expand_model(s: &gherkin::Scenario) -> Result<Vec<gherkin::Scenario>, String> {
    if s.examples.is_empty() {
        return Ok(vec![s.clone()]);
    }
    let mut out = Vec::new();
    for ex in &s.examples {
        let Some(table) = &ex.table else { continue };
        let Some((header, rows)) = table.rows.split_first() else { continue };
        for (i, row) in rows.iter().enumerate() {
            let mut e = s.clone();
            e.position = ex.position;
            e.position.line += i + 2;
            e.tags.extend(ex.tags.iter().cloned());
            e.name = substitute(&e.name, header, row)?;
            for st in &mut e.steps {
                st.value = substitute(&st.value, header, row)?;
                if let Some(d) = &mut st.docstring {
                    *d = substitute(d, header, row)?;
                }
                if let Some(tb) = &mut st.table {
                    for r in &mut tb.rows {
                        for c in r.iter_mut() {
                            *c = substitute(c, header, row)?;
                        }
                    }
                }
            }
            out.push(e);
        }
    }
    Ok(out)
}

fn unknown_names(s: &gherkin::Scenario) -> BTreeSet<String> {
    // every placeholder-looking token that names no column of some table
    let mut set = BTreeSet::new();
    for ex in &s.examples {
        let Some(header) = ex.table.as_ref().and_then(|t| t.rows.first()) else { continue };
        let mut texts = vec![s.name.clone()];
        for st in &s.steps {
            texts.push(st.value.clone());
            texts.extend(st.docstring.clone());
            if let Some(tb) = &st.table {
                texts.extend(tb.rows.iter().flatten().cloned());
            }
        }
        for t in texts {
            let mut rest = t.as_str();
            // collect all unknown names by repeatedly substituting with a header that knows nothing
            while let Err(n) = substitute(rest, &[], &[]) {
                if !header.contains(&n) {
                    set.insert(n.clone());
                }
                // drop up to and including the first occurrence
                let pat = format!("<{n}>");
                match rest.find(&pat) {
                    Some(p) => rest = &rest[p + pat.len()..],
                    None => break,
                }
            }
        }
    }
    set
}

pub fn c16(seed: u64, idx: u64, t: &mut Tally, workdir: &str) {
    let mut r = Rng::new(seed.wrapping_mul(7_000_003).wrapping_add(idx));
    t.evaluations += 1;
    if idx % 4 == 3 {
        return c16_file(&mut r, idx, t, workdir);
    }
    let with_unknown = r.chance(1, 5);
    let mut line = 1;
    let mut total_rows = 0;
    let mut placeholders_outside_steps = false;
    let mut mk = |r: &mut Rng, line: &mut usize, i: usize| -> gherkin::Scenario {
        if r.chance(2, 3) {
            let (s, rows) = outline(r, line, i, with_unknown);
            total_rows += rows;
            if s.name.contains('<') || s.steps.iter().any(|st| st.docstring.as_ref().is_some_and(|d| d.contains('<')) || st.table.is_some()) {
                placeholders_outside_steps = true;
            }
            s
        } else {
            mk_scenario(line, format!("plain {i} <a>"), rand_tags(r), 1)
        }
    };
    let mut f = rand_feature(&mut r, 0);
    f.scenarios = (0..r.range(1, 3)).map(|i| mk(&mut r, &mut line, i)).collect();
    for (ri, rule) in f.rules.iter_mut().enumerate() {
        rule.scenarios = (0..r.range(0, 2)).map(|i| mk(&mut r, &mut line, 10 * (ri + 1) + i)).collect();
    }
    let got = f.clone().expand_examples();

    // model
    let model = (|| -> Result<gherkin::Feature, String> {
        let mut g = f.clone();
        for rule in &mut g.rules {
            let mut v = Vec::new();
            for s in &rule.scenarios {
                v.extend(expand_model(s)?);
            }
            rule.scenarios = v;
        }
        let mut v = Vec::new();
        for s in &g.scenarios {
            v.extend(expand_model(s)?);
        }
        g.scenarios = v;
        Ok(g)
    })();
    let describe = |f: &gherkin::Feature| -> Vec<String> {
        f.scenarios
            .iter()
            .chain(f.rules.iter().flat_map(|r| &r.scenarios))
            .map(|s| format!("{}@{}:{} tags{:?} steps{:?}", s.name, s.position.line, s.position.col, s.tags, s.steps.iter().map(|st| (&st.value, &st.docstring, st.table.as_ref().map(|t| &t.rows))).collect::<Vec<_>>()))
            .collect()
    };
    match (&got, &model) {
        (Ok(g), Ok(m)) => {
            if g != m {
                t.violation("C16", "outline:expansion", format!("expand_examples() gave {:?}, one scenario per data row with placeholders replaced gives {:?}", describe(g), describe(m)), idx, json!({"input": describe(&f)}));
            }
        }
        (Err(e), Err(_)) => {
            let all_unknown: BTreeSet<String> = f.scenarios.iter().chain(f.rules.iter().flat_map(|r| &r.scenarios)).flat_map(|s| unknown_names(s)).collect();
            if !all_unknown.contains(&e.name) {
                t.violation("C16", "outline:error-name", format!("error names placeholder {:?}, unknown placeholders present: {all_unknown:?}", e.name), idx, json!({"input": describe(&f)}));
            }
        }
        (Ok(g), Err(n)) => {
            t.violation("C16", "outline:unknown-placeholder-accepted", format!("placeholder <{n}> names no column but expansion succeeded: {:?}", describe(g)), idx, json!({"input": describe(&f)}));
        }
        (Err(e), Ok(_)) => {
            t.violation("C16", "outline:spurious-error", format!("expansion failed on <{}> although every placeholder names a column", e.name), idx, json!({"input": describe(&f)}));
        }
    }
    if total_rows >= 2 && placeholders_outside_steps {
        t.nontrivial_case("C16");
        t.nontrivial("C16", fnv(&format!("{:?}", describe(&f))));
    }
    t.sample("c16", 2, || json!({"case_index": idx, "input": describe(&f), "result": got.as_ref().map(describe).map_err(|e| e.to_string())}));
}

/// Through `parser::Basic` on a generated .feature file.
fn c16_file(r: &mut Rng, idx: u64, t: &mut Tally, workdir: &str) {
    let dir = format!("{workdir}/c16_{}_{idx}", std::process::id());
    std::fs::create_dir_all(&dir).expect("mkdir");
    let path = format!("{dir}/gen.feature");
    let cols = ["a", "b", "n"];
    let vals = ["1", "two", "x<y", "$1", "q>r", "(z)*", "é"];
    let mut text = String::from("Feature: generated\n\n");
    // expected: (name, step texts, docstring, cell, tags) per expanded scenario, in order
    let mut exp: Vec<(String, Vec<String>, Vec<String>)> = Vec::new();
    let unknown = r.chance(1, 6);
    let mut unknown_used = false;
    let in_rule = r.chance(1, 2);
    let n_out = r.range(1, 3);
    let mut body = String::new();
    for oi in 0..n_out {
        let ind = if in_rule { "    " } else { "  " };
        let otags = if r.chance(1, 2) { vec!["otag".to_owned()] } else { Vec::new() };
        if !otags.is_empty() {
            body.push_str(&format!("{ind}@otag\n"));
        }
        let u = if unknown && !unknown_used {
            unknown_used = true;
            " <zzz>"
        } else {
            ""
        };
        let okw = *r.pick(&["Scenario Outline", "Scenario Outline", "Scenario Template", "Scenario", "Example"]);
        body.push_str(&format!("{ind}{okw}: o{oi} <a> end{u}\n"));
        body.push_str(&format!("{ind}  Given eat <a><b> now\n"));
        body.push_str(&format!("{ind}  When doc\n{ind}    \"\"\"\n{ind}    text <n> here\n{ind}    \"\"\"\n"));
        body.push_str(&format!("{ind}  Then cells\n{ind}    | k | <b> |\n"));
        let ntab = r.range(1, 2);
        for ti in 0..ntab {
            let ttags = if r.chance(1, 2) { vec![format!("t{ti}")] } else { Vec::new() };
            body.push('\n');
            if !ttags.is_empty() {
                body.push_str(&format!("{ind}  @t{ti}\n"));
            }
            body.push_str(&format!("{ind}  Examples:\n{ind}    | a | b | n |\n"));
            let nrows = r.range(0, 3);
            for _ in 0..nrows {
                let row: Vec<&str> = cols.iter().map(|_| *r.pick(&vals)).collect();
                body.push_str(&format!("{ind}    | {} | {} | {} |\n", row[0], row[1], row[2]));
                let mut tags = otags.clone();
                tags.extend(ttags.iter().cloned());
                exp.push((
                    format!("o{oi} {} end", row[0]),
                    vec![format!("eat {}{} now", row[0], row[1]), "doc".into(), "cells".into(), format!("text {} here", row[2]), row[1].to_owned()],
                    tags,
                ));
            }
        }
        body.push('\n');
    }
    if in_rule {
        text.push_str("  Rule: r\n\n");
    }
    text.push_str(&body);
    let ind = if in_rule { "    " } else { "  " };
    text.push_str(&format!("{ind}Scenario: plain <a>\n{ind}  Given plain <b>\n"));
    std::fs::write(&path, &text).expect("write feature");
    // the three ways the stock parser finds its files: a file path, a directory, the `--input <glob>` option
    let route = r.below(3);
    let pcli = if route == 2 {
        cucumber::parser::basic::Cli { features: Some(format!("{dir}/*.feature").parse().expect("glob")) }
    } else {
        cucumber::parser::basic::Cli::default()
    };
    let input = if route == 1 { PathBuf::from(&dir) } else { PathBuf::from(&path) };
    t.count(["c16.files_parsed_by_path", "c16.files_parsed_by_directory", "c16.files_parsed_by_input_glob"][route], 1);
    let items: Vec<parser::Result<gherkin::Feature>> = block_on(parser::Basic::new().parse(input, pcli).collect());
    let _ = std::fs::remove_dir_all(&dir);
    t.count("c16.files_parsed", 1);
    if items.len() != 1 {
        t.violation("C16", "outline:file-items", format!("{} items for one file", items.len()), idx, json!({"text": text}));
        return;
    }
    match &items[0] {
        Err(e) => {
            let ok = unknown_used && matches!(e, parser::Error::ExampleExpansion(x) if x.name == "zzz");
            // an unknown placeholder only matters when there is at least one data row
            if !ok {
                t.violation("C16", "outline:file-error", format!("unexpected parser error {e} (unknown placeholder planted: {unknown_used})"), idx, json!({"text": text}));
            }
        }
        Ok(f) => {
            if unknown_used && !exp.is_empty() && exp.iter().any(|e| e.0.starts_with("o0 ")) {
                t.violation("C16", "outline:unknown-placeholder-accepted", "file with <zzz> and data rows parsed without an error".into(), idx, json!({"text": text}));
                return;
            }
            let scs: Vec<&gherkin::Scenario> = if in_rule { f.rules.iter().flat_map(|r| &r.scenarios).collect() } else { f.scenarios.iter().collect() };
            let got: Vec<(String, Vec<String>, Vec<String>)> = scs
                .iter()
                .filter(|s| !s.examples.is_empty())
                .map(|s| {
                    let mut v: Vec<String> = s.steps.iter().map(|st| st.value.clone()).collect();
                    v.push(s.steps.get(1).and_then(|st| st.docstring.clone()).unwrap_or_default().trim().to_owned());
                    v.push(s.steps.get(2).and_then(|st| st.table.as_ref()).and_then(|tb| tb.rows.first()).and_then(|r| r.get(1)).cloned().unwrap_or_default());
                    (s.name.clone(), v, s.tags.clone())
                })
                .collect();
            let exp2: Vec<_> = if unknown_used { exp.iter().filter(|e| !e.0.starts_with("o0 ")).cloned().collect() } else { exp.clone() };
            if got != exp2 {
                t.violation("C16", "outline:file-expansion", format!("parsed file expands to {got:?}, rows give {exp2:?}"), idx, json!({"text": text}));
            }
            let plain: Vec<&&gherkin::Scenario> = scs.iter().filter(|s| s.examples.is_empty()).collect();
            if plain.len() != 1 || plain[0].name != "plain <a>" || plain[0].steps[0].value != "plain <b>" {
                t.violation("C16", "outline:plain-changed", "scenario without Examples was changed".into(), idx, json!({"text": text}));
            }
            // pairwise distinct positions
            let mut pos = BTreeSet::new();
            for s in &scs {
                if !pos.insert((s.position.line, s.position.col)) {
                    t.violation("C16", "outline:position-collision", format!("two expanded scenarios share position {}:{}", s.position.line, s.position.col), idx, json!({"text": text}));
                    break;
                }
            }
            if exp.len() >= 2 {
                t.nontrivial_case("C16");
                t.nontrivial("C16", fnv(&text));
            }
        }
    }
}

// ---------------------------------------------------------------------------
// C17

thread_local! {
    static CALLED: RefCell<Vec<(usize, Vec<(Option<String>, String)>)>> = const { RefCell::new(Vec::new()) };
}

macro_rules! step_fns {
    ($($name:ident = $i:expr),*) => {
        $(fn $name(_: &mut TW, ctx: step::Context) -> LocalBoxFuture<'_, ()> {
            CALLED.with(|c| c.borrow_mut().push(($i, ctx.matches.clone())));
            Box::pin(async {})
        })*
        const FNS: &[step::Step<TW>] = &[$($name),*];
    };
}
step_fns!(f0 = 0, f1 = 1, f2 = 2, f3 = 3, f4 = 4, f5 = 5, f6 = 6, f7 = 7, f8 = 8, f9 = 9, f10 = 10, f11 = 11);

const REGEXES: &[&str] = &[
    r"^step (\d+)$",
    r"^step (\d+)( with (\w+))?$",
    r"^(?P<who>\w+) eats (?P<n>\d+)( (?P<what>\w+))?$",
    r"^é(ü+)ß (.*)$",
    r"^a(b(c)?)?d$",
    r"(\d+) cukes",
    r"^.*$",
    r"^step .*$",
    r"^(?:x|y)(z)?$",
    r"^(\w+) (\w+)$",
    r"^日本(語)?$",
    r"^()$",
    // literal runs ending in a quantified character, a bare top-level alternation, builder flags
    r"^cucumbers? are (\d+)$",
    r"^I wait a lo*ng time$",
    r"^apples|pears$",
    r"CI:^foo is (\d+)$",
    r"CI:i am hungry",
    r"i am hungry",
];
const TEXTS: &[&str] = &[
    "step 1", "step 22 with foo", "step", "bob eats 3", "bob eats 3 apples", "éüüß tail", "éß x", "ad", "abd", "abcd", "12 cukes", "has 5 cukes here",
    "x", "yz", "zz", "hello world", "日本", "日本語", "", "step x",
    "cucumber are 3", "cucumbers are 3", "I wait a lng time", "I wait a looong time", "ripe pears", "apples pie", "FOO is 7", "foo is 7", "I am HUNGRY", "i am hungry", "say: i am hungry now",
];

thread_local! {
    // "CI:" = the same pattern compiled through RegexBuilder with case_insensitive(true)
    static RX: Vec<Regex> = REGEXES
        .iter()
        .map(|r| match r.strip_prefix("CI:") {
            Some(p) => regex::RegexBuilder::new(p).case_insensitive(true).build().unwrap(),
            None => Regex::new(r).unwrap(),
        })
        .collect();
}

/// The pattern text a pool entry compiles from.
fn pat(src: &str) -> &str {
    src.strip_prefix("CI:").unwrap_or(src)
}

/// Compiled regex for one of `REGEXES` (compiled once per process, cloned cheaply).
fn rx(src: &str) -> Regex {
    RX.with(|v| v[REGEXES.iter().position(|r| *r == src).unwrap()].clone())
}

pub fn c17(seed: u64, idx: u64, t: &mut Tally) {
    let mut r = Rng::new(seed.wrapping_mul(9_000_011).wrapping_add(idx));
    t.evaluations += 1;
    // definitions: unique (keyword, regex, location)
    let n = r.range(1, 12);
    let mut defs: Vec<(u8, &'static str, Option<step::Location>, usize)> = Vec::new();
    let mut tries = 0;
    while defs.len() < n && tries < 100 {
        tries += 1;
        let kw = r.below(3) as u8;
        let re = *r.pick(REGEXES);
        let loc = match r.below(3) {
            0 => None,
            k => Some(step::Location { path: if k == 1 { "src/a.rs" } else { "src/b.rs" }, line: r.range(1, 3) as u32, column: *r.pick(&[1u32, 1, 48]) }),
        };
        // (a definition is identified by keyword, pattern text and location - builder flags are not part of it)
        if defs.iter().any(|d| d.0 == kw && pat(d.1) == pat(re) && d.2 == loc) {
            continue;
        }
        let fi = defs.len();
        defs.push((kw, re, loc, fi));
    }
    let build = |order: &[usize]| -> step::Collection<TW> {
        let mut c = step::Collection::<TW>::new();
        for &i in order {
            let (kw, re, loc, fi) = defs[i];
            let rxc = rx(re);
            c = match kw {
                0 => c.given(loc, rxc, FNS[fi]),
                1 => c.when(loc, rxc, FNS[fi]),
                _ => c.then(loc, rxc, FNS[fi]),
            };
        }
        c
    };
    let kw = r.below(3) as u8;
    let text = *r.pick(TEXTS);
    let gstep = gherkin::Step {
        keyword: ["Given ", "When ", "Then "][kw as usize].into(),
        ty: [gherkin::StepType::Given, gherkin::StepType::When, gherkin::StepType::Then][kw as usize],
        value: text.to_owned(),
        docstring: None,
        table: None,
        span: span(),
        position: lc(3, 5),
    };
    // oracle
    let matching: Vec<usize> = (0..defs.len()).filter(|&i| defs[i].0 == kw && rx(defs[i].1).is_match(text)).collect();
    let mut first_ambiguity: Option<Vec<(String, Option<step::Location>)>> = None;
    let mut optional_absent = false;
    for perm in 0..6 {
        let mut order: Vec<usize> = (0..defs.len()).collect();
        if perm > 0 {
            r.shuffle(&mut order);
        }
        for _instance in 0..2 {
            // the second instance is a clone of a dropped original
            let coll = if _instance == 1 { let orig = build(&order); orig.clone() } else { build(&order) };
            let res = coll.find(&gstep);
            t.count("c17.finds", 1);
            match (matching.len(), res) {
                (0, Ok(None)) => {}
                (1, Ok(Some((f, caps, loc, ctx)))) => {
                    let d = defs[matching[0]];
                    let rxd = rx(d.1);
                    let c = rxd.captures(text).unwrap();
                    let exp: Vec<(Option<String>, String)> = rxd
                        .capture_names()
                        .enumerate()
                        .map(|(gi, nm)| (nm.map(str::to_owned), c.get(gi).map_or(String::new(), |m| m.as_str().to_owned())))
                        .collect();
                    if (1..c.len()).any(|gi| c.get(gi).is_none()) {
                        optional_absent = true;
                    }
                    if (*f as usize) != (FNS[d.3] as usize) {
                        t.violation("C17", "match:wrong-function", format!("'{text}' ({kw}) chose another definition than the only matching {:?}", d.1), idx, json!(null));
                    }
                    if loc != d.2 {
                        t.violation("C17", "match:wrong-location", format!("location {loc:?}, expected {:?}", d.2), idx, json!(null));
                    }
                    if ctx.matches != exp {
                        t.violation("C17", "match:captures", format!("'{text}' against {:?}: matches {:?}, Regex::captures gives {exp:?}", d.1, ctx.matches), idx, json!(null));
                    }
                    if ctx.step != gstep {
                        t.violation("C17", "match:context-step", "Context.step differs from the step searched for".into(), idx, json!(null));
                    }
                    for gi in 0..c.len() {
                        if caps.get(gi) != c.get(gi).map(|m| (m.start(), m.end())) {
                            t.violation("C17", "match:capture-locations", format!("CaptureLocations group {gi} = {:?}, expected {:?}", caps.get(gi), c.get(gi).map(|m| (m.start(), m.end()))), idx, json!(null));
                        }
                    }
                    // the chosen function receives the matches
                    CALLED.with(|c| c.borrow_mut().clear());
                    let mut w = TW { id: 1, counter: 0 };
                    block_on(f(&mut w, ctx));
                    let called = CALLED.with(|c| c.borrow().clone());
                    if called != vec![(d.3, exp.clone())] {
                        t.violation("C17", "match:dispatch", format!("invoking the selected function recorded {called:?}, expected fn {} with {exp:?}", d.3), idx, json!(null));
                    }
                }
                (k, Err(e)) if k >= 2 => {
                    let got: Vec<(String, Option<step::Location>)> = e.possible_matches.iter().map(|(re, l)| (re.to_string(), *l)).collect();
                    let mut exp: Vec<(String, Option<step::Location>)> = matching.iter().map(|&i| (pat(defs[i].1).to_owned(), defs[i].2)).collect();
                    let mut g2 = got.clone();
                    g2.sort();
                    exp.sort();
                    if g2 != exp {
                        t.violation("C17", "match:ambiguity-list", format!("ambiguity lists {got:?}, all matching definitions are {exp:?}"), idx, json!(null));
                    }
                    // "deterministic": the same definitions always give the same list, which for
                    // definitions that differ in anything is the list sorted by (regex, location)
                    if got != exp {
                        t.violation("C17", "match:ambiguity-order", format!("candidates listed as {got:?}, by regex and then location they are {exp:?}"), idx, json!(null));
                    }
                    match &first_ambiguity {
                        None => first_ambiguity = Some(got),
                        Some(f) if *f != got => {
                            t.violation("C17", "match:ambiguity-order", format!("candidate order differs between registration orders / instances: {f:?} vs {got:?}"), idx, json!(null));
                        }
                        _ => {}
                    }
                }
                (k, res) => {
                    let what = match res {
                        Ok(None) => "not found".to_owned(),
                        Ok(Some((_, _, loc, _))) => format!("a single match at {loc:?}"),
                        Err(e) => format!("ambiguity of {}", e.possible_matches.len()),
                    };
                    t.violation(
                        "C17",
                        "match:outcome",
                        format!("'{text}' as keyword {kw}: {k} same-keyword definitions match ({:?}) but find() returned {what}; definitions: {:?}", matching.iter().map(|&i| defs[i].1).collect::<Vec<_>>(), defs.iter().map(|d| (d.0, d.1)).collect::<Vec<_>>()),
                        idx,
                        json!(null),
                    );
                }
            }
        }
    }
    let other_kw_match = (0..defs.len()).any(|i| defs[i].0 != kw && rx(defs[i].1).is_match(text));
    if matching.len() >= 2 || optional_absent || (matching.is_empty() && other_kw_match) {
        t.nontrivial_case("C17");
        t.nontrivial("C17", fnv(&format!("{text}|{kw}|{:?}", defs.iter().map(|d| (d.0, d.1, d.2.map(|l| (l.line, l.column)))).collect::<Vec<_>>())));
    }
    t.sample("c17", 2, || json!({"case_index": idx, "text": text, "keyword": kw, "definitions": defs.iter().map(|d| format!("{}:{}@{:?}", d.0, d.1, d.2.map(|l| (l.path, l.line)))).collect::<Vec<_>>(), "matching": matching}));
}

// ---------------------------------------------------------------------------
// C18 (pure part)

pub fn c18(seed: u64, idx: u64, t: &mut Tally) {
    let mut r = Rng::new(seed.wrapping_mul(11_000_027).wrapping_add(idx));
    t.evaluations += 1;
    let retry_tag = |r: &mut Rng| -> (String, Option<usize>, Option<u64>) {
        let n = r.range(0, 4);
        // delays in several units, an explicit zero included (a given delay, not an omitted one)
        let (dt, d) = *r.pick(&[("5ms", 5u64), ("30ms", 30), ("1500ms", 1500), ("2s", 2000), ("1m", 60_000), ("1h", 3_600_000), ("0s", 0), ("0ms", 0)]);
        match r.below(4) {
            0 => ("retry".to_owned(), None, None),
            1 => (format!("retry({n})"), Some(n), None),
            2 => (format!("retry.after({dt})"), None, Some(d)),
            _ => (format!("retry({n}).after({dt})"), Some(n), Some(d)),
        }
    };
    let level = |r: &mut Rng| -> (Vec<String>, Option<(Option<usize>, Option<u64>)>) {
        let mut tags = rand_tags(r);
        let mut rt = None;
        if r.chance(1, 3) {
            let (tag, n, d) = retry_tag(r);
            let pos = r.below(tags.len() + 1);
            tags.insert(pos, tag);
            rt = Some((n, d));
        }
        (tags, rt)
    };
    let (ftags, frt) = level(&mut r);
    let (rtags, rrt) = level(&mut r);
    let (stags, srt) = level(&mut r);
    let has_rule = r.chance(1, 2);
    let mut line = 3;
    let mut sc = mk_scenario(&mut line, "s".into(), stags.clone(), 1);
    // every third scenario is a row expanded from an outline: its own block's tags are among its tags
    // already, and - a clone of the outline - it still carries ALL the Examples blocks, the sibling
    // ones with tags of their own (plain and retry ones) that are none of this row's business
    if idx % 3 == 1 {
        let blocks = r.range(2, 3);
        sc.examples = (0..blocks)
            .map(|b| {
                let (tags, _) = level(&mut r);
                gherkin::Examples { keyword: "Examples".into(), name: None, description: None, table: None, tags, span: span(), position: lc(10 + b, 5) }
            })
            .collect();
        t.count("c18.scenarios_carrying_sibling_examples_blocks", 1);
    }
    let rule = gherkin::Rule {
        keyword: "Rule".into(),
        name: "r".into(),
        description: None,
        background: None,
        scenarios: vec![sc.clone()],
        tags: rtags.clone(),
        span: span(),
        position: lc(2, 3),
    };
    let feat = gherkin::Feature {
        keyword: "Feature".into(),
        name: "f".into(),
        description: None,
        background: None,
        scenarios: if has_rule { vec![] } else { vec![sc.clone()] },
        rules: if has_rule { vec![rule.clone()] } else { vec![] },
        tags: ftags.clone(),
        span: span(),
        position: lc(1, 1),
        path: None,
    };
    let filter = r.chance(1, 2).then(|| rand_ast(&mut r, 3));
    let cli = RunnerCli {
        concurrency: None,
        fail_fast: false,
        retry: r.chance(1, 2).then(|| r.range(0, 5)),
        retry_after: r.chance(1, 3).then(|| std::time::Duration::from_millis(*r.pick(&[7u64, 40, 2000]))),
        retry_tag_filter: filter.as_ref().map(to_op),
    };
    let got = RetryOptions::parse_from_tags(&feat, has_rule.then_some(&rule), &sc, &cli);

    // oracle, from the statement
    let nearest = srt.or(if has_rule { rrt } else { None }).or(frt);
    let cli_after = cli.retry_after.map(|d| d.as_millis() as u64);
    let exp: Option<(usize, Option<u64>)> = if let Some((n, d)) = nearest {
        Some((n.or(cli.retry).unwrap_or(1), d.or(cli_after)))
    } else {
        let inherited: Vec<&str> = stags
            .iter()
            .chain(if has_rule { rtags.iter() } else { [].iter() })
            .chain(ftags.iter())
            .map(String::as_str)
            .collect();
        let retried = match &filter {
            Some(a) => eval_ast(a, &inherited),
            None => cli.retry.is_some() || cli.retry_after.is_some(),
        };
        retried.then(|| (cli.retry.unwrap_or(1), cli_after))
    };
    let got_n = got.map(|o| (o.retries, o.after.map(|d| d.as_millis() as u64)));
    let exp_n = exp.map(|(n, d)| (Retries { current: 0, left: n }, d));
    if got_n != exp_n {
        t.violation(
            "C18",
            "retry-options:resolution",
            format!(
                "parse_from_tags = {got:?}; statement gives {exp:?} (scenario {stags:?}, rule {:?}, feature {ftags:?}, cli retry={:?} after={:?} filter={:?})",
                has_rule.then_some(&rtags),
                cli.retry,
                cli.retry_after,
                filter.as_ref().map(render_ast)
            ),
            idx,
            json!(null),
        );
    }
    let sources = usize::from(srt.is_some()) + usize::from(has_rule && rrt.is_some()) + usize::from(frt.is_some()) + usize::from(cli.retry.is_some()) + usize::from(cli.retry_after.is_some()) + usize::from(filter.is_some());
    if sources >= 2 {
        t.nontrivial_case("C18");
        t.nontrivial("C18", fnv(&format!("{srt:?}|{:?}|{frt:?}|{:?}|{:?}|{:?}", has_rule.then_some(rrt), cli.retry, cli.retry_after, filter.as_ref().map(render_ast))));
    }
    t.sample("c18", 2, || json!({"case_index": idx, "scenario_tags": stags, "rule_tags": has_rule.then_some(&rtags), "feature_tags": ftags, "cli_retry": cli.retry, "cli_retry_after_ms": cli_after, "filter": filter.as_ref().map(render_ast), "result": format!("{got:?}")}));
}
