//! C20: attribution of `tracing` log lines to the scenario attempt and the
//! step / hook that emitted them.

use std::collections::HashMap;

use serde_json::json;

use crate::{
    analysis::Analysis,
    evrec::{Ev, HookEv, ScEv, StepEv},
    exec::End,
    report::Tally,
    rng::fnv,
    world::CbKind,
};

/// "…L:12:3…" -> "L:12:3"
pub fn log_id(msg: &str) -> Option<String> {
    let p = msg.find("L:")?;
    let rest = &msg[p..];
    let end = rest
        .char_indices()
        .find(|(i, c)| *i >= 2 && !(c.is_ascii_digit() || *c == ':'))
        .map_or(rest.len(), |(i, _)| i);
    let id = &rest[..end];
    (id.matches(':').count() == 2).then(|| id.trim_end_matches(':').to_owned())
}

pub fn c20(an: &Analysis<'_>, t: &mut Tally, idx: u64) {
    let out = an.out;
    let viol = |sig: &str, detail: String, t: &mut Tally| {
        t.violation(
            "C20",
            sig,
            detail,
            idx,
            json!({"case": an.case.describe(), "stream": out.evs.iter().map(|r| r.short()).collect::<Vec<_>>()}),
        );
    };
    if out.end != End::Ended {
        t.inconclusive.push(format!("case {idx}: run did not end ({:?})", out.end));
        return;
    }
    // where was each log id delivered?
    let mut delivered: HashMap<String, Vec<usize>> = HashMap::new();
    for r in &out.evs {
        if let Ev::Sc(ScEv::Log(m)) = &r.ev {
            if m.contains("OUT:") {
                // emitted outside of any scenario span: broadcast to the running scenarios, not
                // governed by the attribution clauses (its position is C02's / C03's business)
                t.count("c20.outside_span_logs_delivered", 1);
                continue;
            }
            match log_id(m) {
                Some(id) => delivered.entry(id).or_default().push(r.idx),
                None => viol("log:unknown-message", format!("Log event with a message nobody emitted: {m:?}"), t),
            }
        }
    }
    let mut emitted = 0u64;
    let mut scen_logging: HashMap<u32, u64> = HashMap::new();
    // attempt of each callback: through its group
    let mut att_of_cb: HashMap<usize, usize> = HashMap::new();
    for (ai, a) in an.attempts.iter().enumerate() {
        if let Some(g) = a.group {
            for c in &an.groups[g].cbs {
                att_of_cb.insert(*c, ai);
            }
        }
    }
    for (ci, cb) in out.cbs.iter().enumerate() {
        // one witness per callback and signature (a chatty step would otherwise repeat it per log line)
        let mut seen: HashMap<&'static str, (String, u64)> = HashMap::new();
        let mut note = |sig: &'static str, detail: String| {
            seen.entry(sig).or_insert((detail, 0)).1 += 1;
        };
        let att = att_of_cb.get(&ci).copied().filter(|&ai| an.groups[an.attempts[ai].group.unwrap()].sc_uid.is_some());
        let unit = att.map(|ai| unit_events(an, ai, cb.kind, &cb.text));
        if cb.logs.len() > 256 {
            t.count("c20.callbacks_logging_more_than_256_lines_in_one_poll", 1);
        } else if cb.logs.len() >= 100 {
            t.count("c20.callbacks_logging_100_to_256_lines_in_one_poll", 1);
        }
        for id in &cb.logs {
            emitted += 1;
            let places = delivered.remove(id).unwrap_or_default();
            if places.is_empty() {
                note("log:lost", format!("log {id} emitted by {:?} '{}' was never delivered as a Log event", cb.kind, cb.text));
                continue;
            }
            if places.len() > 1 {
                note("log:duplicated", format!("log {id} delivered {} times (events {places:?})", places.len()));
            }
            // (attribution of identity-less groups is by order only)
            let Some(ai) = att else { continue };
            let a = &an.attempts[ai];
            *scen_logging.entry(a.sc_uid).or_insert(0) += 1;
            let at = places[0];
            let r = &out.evs[at];
            if r.s.map(|s| s.ptr) != Some(a.s_ptr) || r.retries != a.retries {
                note(
                    "log:wrong-scenario",
                    format!("log {id} emitted by s{} attempt {:?} ({:?} '{}') was delivered as {}", a.sc_uid, a.retries, cb.kind, cb.text, r.short()),
                );
                continue;
            }
            // position: after the Started of the emitting unit, before its result
            let (Some(st), Some(res)) = unit.unwrap() else {
                note("log:unit-events-missing", format!("no Started/result events found for {:?} '{}' of s{}", cb.kind, cb.text, a.sc_uid));
                continue;
            };
            if at < st || at > res {
                let sig = if cb.kind == CbKind::After && at < st { "log:after-hook-log-before-hook-started" } else if at < st { "log:before-unit-started" } else { "log:after-unit-result" };
                note(
                    sig,
                    format!(
                        "log {id} of {:?} '{}' (s{} {:?}) is event #{at}, its unit's Started is #{st} and result is #{res}",
                        cb.kind, cb.text, a.sc_uid, a.retries
                    ),
                );
            }
        }
        let mut seen: Vec<_> = seen.into_iter().collect();
        seen.sort();
        for (sig, (detail, n)) in seen {
            viol(sig, if n > 1 { format!("{detail} (and {} more log line(s) of this callback)", n - 1) } else { detail }, t);
        }
    }
    for (id, places) in delivered {
        viol("log:phantom", format!("Log event {id} at {places:?} matches no emitted log"), t);
    }
    t.count("c20.logs_emitted", emitted);
    // non-trivial: >= 2 scenarios in flight both logging
    let series = {
        let mut n = 0i64;
        out.evs.iter().map(|r| { match r.ev { Ev::Sc(ScEv::Started) => n += 1, Ev::Sc(ScEv::Finished) => n -= 1, _ => {} } n }).max().unwrap_or(0)
    };
    if scen_logging.len() >= 2 && series >= 2 {
        t.nontrivial_case("C20");
        t.nontrivial("C20", out.sched_hash ^ fnv(&format!("{}|{emitted}", scen_logging.len())));
    }
}

/// The part of the statement that survives a subscriber which filters out the library's own spans
/// (no line can be attributed then, each one is handed to every running scenario): a line logged
/// by a callback while it runs still reaches the attempt that logged it - "no such log is lost".
pub fn c20_unattributed(an: &Analysis<'_>, t: &mut Tally, idx: u64, late_ids: &std::collections::HashSet<String>) {
    let out = an.out;
    if out.end != End::Ended {
        t.inconclusive.push(format!("case {idx}: run did not end ({:?})", out.end));
        return;
    }
    let mut delivered: HashMap<String, Vec<usize>> = HashMap::new();
    for r in &out.evs {
        if let Ev::Sc(ScEv::Log(m)) = &r.ev {
            if !m.contains("OUT:") {
                if let Some(id) = log_id(m) {
                    delivered.entry(id).or_default().push(r.idx);
                }
            }
        }
    }
    let mut checked = 0u64;
    for (ai, a) in an.attempts.iter().enumerate() {
        let Some(g) = a.group else { continue };
        if an.groups[g].sc_uid.is_none() {
            continue;
        }
        for &ci in &an.groups[g].cbs {
            let cb = &out.cbs[ci];
            let missing: Vec<&String> = cb
                .logs
                .iter()
                .filter(|id| !late_ids.contains(*id))
                .filter(|id| {
                    checked += 1;
                    !delivered.get(*id).is_some_and(|places| places.iter().any(|&at| out.evs[at].s.map(|s| s.ptr) == Some(a.s_ptr) && out.evs[at].retries == a.retries))
                })
                .collect();
            if let Some(first) = missing.first() {
                t.violation(
                    "C20",
                    "log:not-delivered-to-its-own-attempt",
                    format!(
                        "log {first} emitted by {:?} '{}' of s{} attempt {:?} (#{ai}) was not delivered as a Log event of that attempt ({} line(s) of this callback); the library's spans are filtered out, every line goes to all running scenarios",
                        cb.kind,
                        cb.text,
                        a.sc_uid,
                        a.retries,
                        missing.len()
                    ),
                    idx,
                    json!({"case": an.case.describe(), "stream": out.evs.iter().map(|r| r.short()).collect::<Vec<_>>()}),
                );
            }
        }
    }
    t.count("c20.lines_checked_for_delivery_without_attribution", checked);
}

/// Event indices (Started, result) of the unit a callback implements, inside attempt `ai`.
fn unit_events(an: &Analysis<'_>, ai: usize, kind: CbKind, text: &str) -> (Option<usize>, Option<usize>) {
    let a = &an.attempts[ai];
    let mut started = None;
    let mut result = None;
    for &i in &a.evs {
        match (kind, an.ev(i).is_sc()) {
            (CbKind::Step, Some(ScEv::Step { text: t, ev, .. })) if t == text => match ev {
                StepEv::Started => started = Some(i),
                _ => result = Some(i),
            },
            (CbKind::Before, Some(ScEv::Hook { before: true, ev })) => match ev {
                HookEv::Started => started = Some(i),
                _ => result = Some(i),
            },
            (CbKind::After, Some(ScEv::Hook { before: false, ev })) => match ev {
                HookEv::Started => started = Some(i),
                _ => result = Some(i),
            },
            _ => {}
        }
    }
    (started, result)
}
