//! Violations, coverage tallies and shard result files.

use std::collections::{BTreeMap, BTreeSet};

use serde_json::{Value, json};

#[derive(Clone, Debug)]
pub struct Violation {
    pub property: String,
    /// Narrow machine-readable classification (used to match known findings).
    pub signature: String,
    pub detail: String,
    pub case_index: u64,
    pub witness: Value,
}

#[derive(Default)]
pub struct Tally {
    pub evaluations: u64,
    /// property -> set of distinct non-trivial signatures.
    pub nontrivial: BTreeMap<String, BTreeSet<u64>>,
    /// property -> number of non-trivial cases (not deduplicated).
    pub nontrivial_cases: BTreeMap<String, u64>,
    pub counters: BTreeMap<String, u64>,
    pub interleavings: BTreeSet<u64>,
    pub samples: BTreeMap<String, Vec<Value>>,
    pub violations: Vec<Violation>,
    pub inconclusive: Vec<String>,
}

impl Tally {
    pub fn count(&mut self, key: &str, n: u64) {
        *self.counters.entry(key.to_owned()).or_insert(0) += n;
    }
    pub fn nontrivial(&mut self, prop: &str, sig: u64) {
        self.nontrivial.entry(prop.to_owned()).or_default().insert(sig);
    }
    pub fn nontrivial_case(&mut self, prop: &str) {
        *self.nontrivial_cases.entry(prop.to_owned()).or_insert(0) += 1;
    }
    pub fn sample(&mut self, prop: &str, max: usize, f: impl FnOnce() -> Value) {
        let v = self.samples.entry(prop.to_owned()).or_default();
        if v.len() < max {
            v.push(f());
        }
    }
    pub fn violation(
        &mut self,
        property: &str,
        signature: &str,
        detail: String,
        case_index: u64,
        witness: Value,
    ) {
        self.violations.push(Violation {
            property: property.to_owned(),
            signature: signature.to_owned(),
            detail,
            case_index,
            witness,
        });
    }

    pub fn to_json(&self) -> Value {
        json!({
            "evaluations": self.evaluations,
            "nontrivial": self.nontrivial.iter().map(|(k, v)| (k.clone(), json!(v.iter().collect::<Vec<_>>()))).collect::<serde_json::Map<_, _>>(),
            "nontrivial_cases": self.nontrivial_cases,
            "counters": self.counters,
            "interleavings": self.interleavings.iter().collect::<Vec<_>>(),
            "samples": self.samples,
            "inconclusive": self.inconclusive,
            "violations": self.violations.iter().map(|v| json!({
                "property": v.property,
                "signature": v.signature,
                "detail": v.detail,
                "case_index": v.case_index,
                "witness": v.witness,
            })).collect::<Vec<_>>(),
        })
    }
}
