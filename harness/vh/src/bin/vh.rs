//! `vh` - shard worker. Runs a range of generated cases of one engine and
//! writes a JSON tally (coverage + violations) for the python driver.

use std::{collections::HashMap, io::Write as _, sync::atomic::Ordering};

use serde_json::json;
use vh::{analysis::Analysis, exec, oracles_run, report::Tally, spec};

fn main() {
    let mut args: Vec<String> = std::env::args().skip(1).collect();
    if args.is_empty() {
        // arguments handed over through the environment (see `check`): the process's own command line
        // stays empty
        if let Ok(v) = std::env::var("VH_ARGS") {
            args = v.split('\u{1f}').map(str::to_owned).collect();
        }
    }
    let mut kv: HashMap<String, String> = HashMap::new();
    let mut it = args.iter();
    let engine = it.next().cloned().unwrap_or_else(|| usage());
    while let Some(k) = it.next() {
        let k = k.trim_start_matches("--").to_owned();
        let v = it.next().cloned().unwrap_or_else(|| usage());
        kv.insert(k, v);
    }
    let get = |k: &str, d: &str| kv.get(k).cloned().unwrap_or_else(|| d.to_owned());
    let seed: u64 = get("seed", "1").parse().expect("seed");
    let start: u64 = get("start", "0").parse().expect("start");
    let count: u64 = get("count", "100").parse().expect("count");
    let out = get("out", "/dev/stdout");
    let profile = get("profile", "general");
    let verbose = get("verbose", "0") != "0";

    let mut tally = Tally::default();
    match engine.as_str() {
        "vrun" => vrun(&profile, seed, start, count, &out, verbose, &mut tally),
        #[cfg(feature = "writers")]
        "vpure" => {
            let workdir = std::path::Path::new(&out).parent().map_or(".".to_owned(), |p| p.display().to_string());
            for idx in start..start + count {
                let before = tally.violations.len();
                match profile.as_str() {
                    "c15" => vh::pure::c15(seed, idx, &mut tally, &workdir),
                    "c16" => vh::pure::c16(seed, idx, &mut tally, &workdir),
                    "c17" => vh::pure::c17(seed, idx, &mut tally),
                    "c18" => vh::pure::c18(seed, idx, &mut tally),
                    other => {
                        eprintln!("unknown vpure profile {other}");
                        std::process::exit(2);
                    }
                }
                if verbose {
                    for v in &tally.violations[before..] {
                        eprintln!("case {idx}: {} {} {}", v.property, v.signature, v.detail);
                    }
                }
            }
        }
        #[cfg(feature = "writers")]
        "vstream" => vstream(&profile, seed, start, count, verbose, &mut tally, &out),
        other => {
            eprintln!("unknown engine {other}");
            std::process::exit(2);
        }
    }
    write_out(&out, &tally, "done");
}

fn usage() -> ! {
    eprintln!("usage: vh <engine> [--profile P] [--seed S] [--start I] [--count N] [--out FILE]");
    std::process::exit(2)
}

fn write_out(out: &str, tally: &Tally, status: &str) {
    let mut v = tally.to_json();
    v["status"] = json!(status);
    let s = serde_json::to_string(&v).expect("json");
    if out == "/dev/stdout" {
        println!("{s}");
    } else {
        let tmp = format!("{out}.tmp");
        std::fs::File::create(&tmp).and_then(|mut f| f.write_all(s.as_bytes())).expect("write");
        std::fs::rename(&tmp, out).expect("rename");
    }
}

fn main_tid() -> u32 {
    std::fs::read_link("/proc/thread-self")
        .ok()
        .and_then(|p| p.file_name()?.to_str()?.parse().ok())
        .unwrap_or(0)
}

fn vrun(profile: &str, seed: u64, start: u64, count: u64, out: &str, verbose: bool, tally: &mut Tally) {
    let prof = spec::Profile::by_name(profile);
    let spin_file = format!("{out}.spin");
    let _ = std::fs::remove_file(&spin_file);
    #[cfg(not(miri))]
    {
        let sf = spin_file.clone();
        let (p, s) = (profile.to_owned(), seed);
        exec::spawn_watchdog(main_tid(), 3.0, move |case, cpu| {
            let v = json!({"case_index": case, "cpu_s": cpu, "profile": p, "seed": s});
            let _ = std::fs::write(&sf, v.to_string());
            std::process::exit(3);
        });
    }
    for idx in start..start + count {
        exec::CUR_CASE.store(idx, Ordering::SeqCst);
        let case = spec::generate(&prof, seed, idx);
        let run = exec::run_case(&case);
        let an = Analysis::new(&case, &run);
        tally.evaluations += 1;
        tally.count("events", run.evs.len() as u64);
        tally.count("callbacks", run.cbs.len() as u64);
        tally.count("qpoints", run.qpoints.len() as u64);
        tally.count("panics_raised_on_a_helper_thread_of_the_callback", vh::world::HELPER_THREAD_PANICS.swap(0, std::sync::atomic::Ordering::SeqCst));
        tally.count("runs_with_cli_options_parsed_from_an_argument_vector", u64::from(vh::world::with_rs(|rs| rs.cli_from_argv)));
        tally.count("polls", run.polls);
        tally.count("parked", u64::from(run.parked));
        tally.count("gates_released_together_with_another", run.multi_releases);
        tally.interleavings.insert(run.sched_hash ^ vh::rng::fnv(&format!("{}", run.evs.len())));
        let before = tally.violations.len();
        oracles_run::check_all(&an, tally, idx);
        if verbose {
            eprintln!("case {idx}: {} events, {} cbs, end {:?}, {} new violations", run.evs.len(), run.cbs.len(), run.end, tally.violations.len() - before);
            if tally.violations.len() > before {
                for v in &tally.violations[before..] {
                    eprintln!("  {} {} {}", v.property, v.signature, v.detail);
                }
            }
        }
        #[cfg(feature = "writers")]
        if idx % 5 == 0 && run.end == exec::End::Ended && (profile == "c01" || profile == "general") {
            vh::pipelines::check_run_and_exit(&case, tally, idx);
        }
        // C08, differential clause: if nothing fails finally, a fail-fast run equals a normal run.
        // (Same seeds, same schedule; only cases without real-time delays are comparable event by event.)
        if case.cfg.fail_fast()
            && run.end == exec::End::Ended
            && an.first_final_failure.is_none()
            && !run.evs.iter().any(|r| matches!(r.ev, vh::evrec::Ev::ParseErr(_)))
            && an.sc.values().all(|i| i.retry.is_none_or(|r| r.1.is_none()))
            && case.sched_sleep_pct == 0
        {
            let mut plain = case.clone();
            plain.cfg.cli_ff = false;
            plain.cfg.b_ff = false;
            let run2 = exec::run_case(&plain);
            let a = vh::evrec::render(&run.evs);
            let b = vh::evrec::render(&run2.evs);
            tally.count("c08.differential_pairs", 1);
            tally.nontrivial("C08", vh::rng::fnv(&format!("diff|{}|{:?}", a.len(), case.cfg.limit())) ^ run.sched_hash);
            if a != b {
                let at = a.iter().zip(&b).position(|(x, y)| x != y).unwrap_or(a.len().min(b.len()));
                tally.violation(
                    "C08",
                    "failfast:differs-when-nothing-fails",
                    format!("no attempt failed finally, yet the fail-fast run differs from the normal run at event {at}: {:?} vs {:?}", a.get(at), b.get(at)),
                    idx,
                    json!({"case": case.describe(), "fail_fast_stream": a, "normal_stream": b}),
                );
            }
        }
        // the same feature delivered several times by the parser (twins are told apart by their
        // `Source` allocation only)
        if idx % 25 == 7 && matches!(profile, "general" | "c03" | "c04") {
            let (tw, problems) = exec::run_twins(seed, idx);
            tally.count("twin_feature_runs", 1);
            tally.count("events", tw.evs.len() as u64);
            for (prop, sig, detail) in problems {
                tally.violation(prop, sig, detail, idx, json!({"stream": vh::evrec::render(&tw.evs)}));
            }
        }
        // a complete run inside a step / after hook of another run on the same thread
        if idx % 50 == 11 && matches!(profile, "general" | "c10") {
            tally.count("nested_runs", 1);
            for (prop, sig, detail) in exec::run_nested(idx) {
                tally.violation(prop, sig, detail, idx, json!(null));
            }
        }
        tally.sample("run", 3, || {
            json!({"case_index": idx, "case": case.describe(), "stream": vh::evrec::render(&run.evs), "schedule": run.qpoints.iter().map(|q| q.decision.clone()).collect::<Vec<_>>()})
        });
    }
}

#[cfg(feature = "writers")]
fn vstream(profile: &str, seed: u64, start: u64, count: u64, verbose: bool, tally: &mut Tally, out: &str) {
    let mut dump: Option<std::io::BufWriter<std::fs::File>> = (profile == "c14").then(|| std::io::BufWriter::new(std::fs::File::create(format!("{out}.dump.jsonl")).expect("dump file")));
    use vh::{oracles_stream as os, recw, rng::Rng, synth};
    let gen_prof = spec::Profile::by_name("general");
    for idx in start..start + count {
        let before = tally.violations.len();
        let mut rng = Rng::new(seed.wrapping_mul(31).wrapping_add(idx));
        // every 4th case replays a real stream recorded from runner::Basic
        let real = idx % 4 == 3;
        let real_items = || {
            let case = spec::generate(&gen_prof, seed ^ 0xABCD, idx);
            exec::run_case(&case).items
        };
        if real {
            // A recorded stream is only as contract-abiding as the runner that
            // produced it: a writer panicking on it is not held against the writer.
            exec::IN_RUN.store(true, Ordering::SeqCst);
            let probe = std::panic::catch_unwind(|| {
                let items = real_items();
                let _ = recw::normalize(&items);
            });
            exec::IN_RUN.store(false, Ordering::SeqCst);
            if probe.is_err() {
                tally.count("real_streams_rejected_by_normalize", 1);
                tally.evaluations += 1;
                continue;
            }
        }
        match profile {
            "c11" => {
                let s = if real {
                    synth::from_items(&real_items())
                } else {
                    synth::generate(seed, idx, synth::SynthCfg { empty_brackets: idx % 3 == 1, ..synth::SynthCfg::default() }, idx % 5 != 0, &gen_prof)
                };
                os::c11(&s, tally, idx);
            }
            "c12" => {
                let items = if real {
                    recw::normalize(&real_items())
                } else {
                    let cfg = synth::SynthCfg { not_found: idx % 3 == 0, empty_brackets: idx % 6 == 1, ..synth::SynthCfg::default() };
                    synth::generate_with(seed, idx, cfg, false, &gen_prof, |feats, r| {
                        if idx % 2 == 0 {
                            synth::repeat_step_texts(feats, r);
                        }
                    })
                    .items
                };
                os::c12(&items, tally, idx, if real { "real run, normalized" } else { "synthetic" });
            }
            "c13" => {
                let mut items = if real {
                    synth::from_items(&real_items()).items
                } else {
                    synth::generate(seed, idx, synth::SynthCfg { empty_brackets: idx % 3 == 1, ..synth::SynthCfg::default() }, idx % 2 == 0, &gen_prof).items
                };
                if idx % 7 == 0 {
                    rng.shuffle(&mut items); // these wrappers are stateless per event
                }
                os::c13(&items, tally, idx, &mut rng);
            }
            "c14" => {
                let cdata = idx % 10 == 9;
                let pathless = idx % 3 == 0;
                let items = if real {
                    synth::from_items(&real_items()).items
                } else {
                    let cfg = synth::SynthCfg { not_found: idx % 4 == 0, empty_brackets: idx % 6 == 1, ..synth::SynthCfg::default() };
                    synth::generate_with(seed, idx, cfg, idx % 2 == 0, &gen_prof, |feats, r| {
                        if idx % 5 == 1 {
                            synth::repeat_step_texts(feats, r);
                        }
                        synth::decorate(feats, r, cdata);
                        if idx % 5 == 2 {
                            synth::same_scenario_names(feats, r);
                        }
                        for (i, f) in feats.iter_mut().enumerate() {
                            if pathless && i % 2 == 0 {
                                f.path = None;
                            }
                        }
                        // a source path that is not valid UTF-8 (a Latin-1 file name on a Unix file system)
                        if idx % 11 == 5 {
                            if let Some(f) = feats.last_mut() {
                                use std::os::unix::ffi::OsStringExt as _;
                                f.path = Some(std::path::PathBuf::from(std::ffi::OsString::from_vec(b"/virt/caf\xE9.feature".to_vec())));
                            }
                        }
                        // twin features: same name, no path (one JSON feature object), same layout
                        // (same lines), the first one's scenario names ending with the second one's
                        if idx % 7 == 3 {
                            if let Some(mut twin) = feats.first().cloned() {
                                let first = &mut feats[0];
                                first.path = None;
                                for sc in first.scenarios.iter_mut().chain(first.rules.iter_mut().flat_map(|r| r.scenarios.iter_mut())) {
                                    sc.name = format!("admin {}", sc.name);
                                }
                                twin.path = None;
                                feats.insert(1, twin);
                            }
                        }
                    })
                    .items
                };
                let rec = vh::reporters::dump_case(idx, &items, idx / 2, json!({"cdata": cdata && !real, "real": real}));
                use std::io::Write as _;
                writeln!(dump.as_mut().unwrap(), "{rec}").expect("dump write");
                tally.evaluations += 1;
            }
            other => {
                eprintln!("unknown vstream profile {other}");
                std::process::exit(2);
            }
        }
        if verbose {
            for v in &tally.violations[before..] {
                eprintln!("case {idx}: {} {} {}", v.property, v.signature, v.detail);
            }
        }
    }
}
