//! Event fingerprints: a flat, comparable rendering of `Event<Cucumber<TW>>`
//! (Source pointer identities, uids parsed from names, retries, payloads).

use cucumber::{
    Event,
    event::{self, Cucumber, Feature, Hook, HookType, Info, Rule, Scenario, Step, StepError},
    parser,
};
use serde_json::{Value, json};

use crate::world::{Boom, TW, uid_of};

pub type Item = parser::Result<Event<Cucumber<TW>>>;

#[derive(Clone, Debug, PartialEq, Eq, Hash)]
pub enum Payload {
    Str(String),
    StaticStr(String),
    Custom(u64),
    Int(i64),
    Other,
}

impl Payload {
    pub fn token(&self) -> Option<u64> {
        match self {
            Payload::Str(s) => token_in(s),
            Payload::Custom(t) => Some(*t),
            Payload::Int(t) => Some(*t as u64),
            _ => None,
        }
    }
}

/// Extracts `N` from "...#N#..." .
pub fn token_in(s: &str) -> Option<u64> {
    let mut parts = s.split('#');
    let _ = parts.next()?;
    parts.next()?.parse().ok()
}

pub fn payload_of(info: &Info) -> Payload {
    if let Some(s) = info.downcast_ref::<String>() {
        Payload::Str(s.clone())
    } else if let Some(s) = info.downcast_ref::<&'static str>() {
        Payload::StaticStr((*s).to_owned())
    } else if let Some(b) = info.downcast_ref::<Boom>() {
        Payload::Custom(b.0)
    } else if let Some(i) = info.downcast_ref::<i64>() {
        Payload::Int(*i)
    } else {
        Payload::Other
    }
}

#[derive(Clone, Debug, PartialEq, Eq, Hash)]
pub enum StepErr {
    NotFound,
    Ambiguous(Vec<String>),
    Panic(Payload),
}

pub fn step_err_of(e: &StepError) -> StepErr {
    match e {
        StepError::NotFound => StepErr::NotFound,
        StepError::AmbiguousMatch(a) => {
            StepErr::Ambiguous(a.possible_matches.iter().map(|(re, _)| re.to_string()).collect())
        }
        StepError::Panic(info) => StepErr::Panic(payload_of(info)),
    }
}

#[derive(Clone, Debug, PartialEq, Eq, Hash)]
pub enum StepEv {
    Started,
    Passed,
    Skipped,
    Failed { err: StepErr, world: Option<u64>, captures: bool, loc: bool },
}

#[derive(Clone, Debug, PartialEq, Eq, Hash)]
pub enum HookEv {
    Started,
    Passed,
    Failed { payload: Payload, world: Option<u64> },
}

#[derive(Clone, Debug, PartialEq, Eq, Hash)]
pub enum ScEv {
    Started,
    Finished,
    Log(String),
    Hook { before: bool, ev: HookEv },
    Step { bg: bool, text: String, kw: u8, line: usize, ptr: usize, ev: StepEv },
}

#[derive(Clone, Debug, PartialEq, Eq, Hash)]
pub enum Ev {
    ParseErr(String),
    Started,
    ParsingFinished { features: usize, rules: usize, scenarios: usize, steps: usize, parser_errors: usize },
    Finished,
    FeatStarted,
    FeatFinished,
    RuleStarted,
    RuleFinished,
    Sc(ScEv),
}

#[derive(Clone, Copy, Debug, PartialEq, Eq, Hash, PartialOrd, Ord)]
pub struct Ent {
    pub ptr: usize,
    pub uid: u32,
}

#[derive(Clone, Debug)]
pub struct Rec {
    pub idx: usize,
    pub ev: Ev,
    pub f: Option<Ent>,
    pub r: Option<Ent>,
    pub s: Option<Ent>,
    pub retries: Option<(usize, usize)>,
    /// Callback-log sequence number when the harness received the event.
    pub seq: u64,
    /// Quiescent interval in which it was received.
    pub q: u32,
    pub poll: u64,
    #[cfg(feature = "writers")]
    pub at: std::time::SystemTime,
}

fn ent_f(f: &event::Source<cucumber::gherkin::Feature>) -> Ent {
    Ent { ptr: &**f as *const _ as usize, uid: uid_of(&f.name, 'f').unwrap_or(u32::MAX) }
}
fn ent_r(r: &event::Source<cucumber::gherkin::Rule>) -> Ent {
    Ent { ptr: &**r as *const _ as usize, uid: uid_of(&r.name, 'r').unwrap_or(u32::MAX) }
}
fn ent_s(s: &event::Source<cucumber::gherkin::Scenario>) -> Ent {
    Ent { ptr: &**s as *const _ as usize, uid: uid_of(&s.name, 's').unwrap_or(u32::MAX) }
}

fn step_ev(e: &Step<TW>) -> StepEv {
    match e {
        Step::Started => StepEv::Started,
        Step::Passed(..) => StepEv::Passed,
        Step::Skipped => StepEv::Skipped,
        Step::Failed(c, l, w, err) => StepEv::Failed {
            err: step_err_of(err),
            world: w.as_ref().map(|w| w.id),
            captures: c.is_some(),
            loc: l.is_some(),
        },
    }
}

fn sc_ev(e: &Scenario<TW>) -> ScEv {
    let kw = |s: &cucumber::gherkin::Step| match s.ty {
        cucumber::gherkin::StepType::Given => 0,
        cucumber::gherkin::StepType::When => 1,
        cucumber::gherkin::StepType::Then => 2,
    };
    match e {
        Scenario::Started => ScEv::Started,
        Scenario::Finished => ScEv::Finished,
        Scenario::Log(l) => ScEv::Log(l.clone()),
        Scenario::Hook(ty, h) => ScEv::Hook {
            before: matches!(ty, HookType::Before),
            ev: match h {
                Hook::Started => HookEv::Started,
                Hook::Passed => HookEv::Passed,
                Hook::Failed(w, info) => {
                    HookEv::Failed { payload: payload_of(info), world: w.as_ref().map(|w| w.id) }
                }
            },
        },
        Scenario::Background(st, ev) => ScEv::Step {
            bg: true,
            text: st.value.clone(),
            kw: kw(st),
            line: st.position.line,
            ptr: &**st as *const _ as usize,
            ev: step_ev(ev),
        },
        Scenario::Step(st, ev) => ScEv::Step {
            bg: false,
            text: st.value.clone(),
            kw: kw(st),
            line: st.position.line,
            ptr: &**st as *const _ as usize,
            ev: step_ev(ev),
        },
    }
}

pub fn fingerprint(item: &Item, idx: usize, seq: u64, q: u32, poll: u64) -> Rec {
    let mut rec = Rec {
        idx,
        ev: Ev::Started,
        f: None,
        r: None,
        s: None,
        retries: None,
        seq,
        q,
        poll,
        #[cfg(feature = "writers")]
        at: std::time::SystemTime::UNIX_EPOCH,
    };
    match item {
        Err(e) => {
            rec.ev = Ev::ParseErr(match e {
                parser::Error::Parsing(p) => format!("Parsing:{p}"),
                parser::Error::ExampleExpansion(x) => format!("ExampleExpansion:{}", x.name),
            });
        }
        Ok(ev) => {
            #[cfg(feature = "writers")]
            {
                rec.at = ev.at;
            }
            match &ev.value {
                Cucumber::Started => rec.ev = Ev::Started,
                Cucumber::Finished => rec.ev = Ev::Finished,
                Cucumber::ParsingFinished { features, rules, scenarios, steps, parser_errors } => {
                    rec.ev = Ev::ParsingFinished {
                        features: *features,
                        rules: *rules,
                        scenarios: *scenarios,
                        steps: *steps,
                        parser_errors: *parser_errors,
                    };
                }
                Cucumber::Feature(f, fe) => {
                    rec.f = Some(ent_f(f));
                    match fe {
                        Feature::Started => rec.ev = Ev::FeatStarted,
                        Feature::Finished => rec.ev = Ev::FeatFinished,
                        Feature::Scenario(s, e) => {
                            rec.s = Some(ent_s(s));
                            rec.retries = e.retries.map(|r| (r.current, r.left));
                            rec.ev = Ev::Sc(sc_ev(&e.event));
                        }
                        Feature::Rule(r, re) => {
                            rec.r = Some(ent_r(r));
                            match re {
                                Rule::Started => rec.ev = Ev::RuleStarted,
                                Rule::Finished => rec.ev = Ev::RuleFinished,
                                Rule::Scenario(s, e) => {
                                    rec.s = Some(ent_s(s));
                                    rec.retries = e.retries.map(|r| (r.current, r.left));
                                    rec.ev = Ev::Sc(sc_ev(&e.event));
                                }
                            }
                        }
                    }
                }
            }
        }
    }
    rec
}

impl Rec {
    pub fn is_sc(&self) -> Option<&ScEv> {
        match &self.ev {
            Ev::Sc(e) => Some(e),
            _ => None,
        }
    }

    /// Short rendering for witnesses.
    pub fn short(&self) -> String {
        let who = format!(
            "{}{}{}",
            self.f.map_or(String::new(), |f| format!("f{}", f.uid)),
            self.r.map_or(String::new(), |r| format!("/r{}", r.uid)),
            self.s.map_or(String::new(), |s| format!("/s{}", s.uid)),
        );
        let ret = self.retries.map_or(String::new(), |(c, l)| format!("[{c}/{l}]"));
        let what = match &self.ev {
            Ev::Sc(ScEv::Step { bg, text, ev, .. }) => {
                let e = match ev {
                    StepEv::Started => "Started".to_owned(),
                    StepEv::Passed => "Passed".to_owned(),
                    StepEv::Skipped => "Skipped".to_owned(),
                    StepEv::Failed { err, .. } => format!("Failed({err:?})"),
                };
                format!("{}'{text}' {e}", if *bg { "Bg" } else { "Step" })
            }
            Ev::Sc(ScEv::Hook { before, ev }) => {
                format!("Hook({}) {ev:?}", if *before { "Before" } else { "After" })
            }
            Ev::Sc(e) => format!("{e:?}"),
            e => format!("{e:?}"),
        };
        format!("#{} {who}{ret} {what}", self.idx)
    }

    pub fn to_json(&self) -> Value {
        json!(self.short())
    }
}

pub fn render(recs: &[Rec]) -> Vec<String> {
    recs.iter().map(Rec::short).collect()
}
