//! Recording writer: stores a fingerprint of everything it is given.

use std::{
    cell::{Cell, RefCell},
    rc::Rc,
};

use cucumber::{Writer, cli, writer};

use crate::{
    evrec::{self, Item, Rec},
    synth::token_of,
    world::TW,
};

#[derive(Clone, Debug)]
pub enum Got {
    Event { token: Option<u64>, fp: Rec, call: usize },
    Write { val: String, call: usize },
}

#[derive(Clone, Default)]
pub struct Shared {
    pub log: Rc<RefCell<Vec<Got>>>,
    /// Index of the outermost `handle_event` call in progress.
    pub call: Rc<Cell<usize>>,
}

#[derive(Clone)]
pub struct RecW {
    pub sh: Shared,
    /// Scripted statistics (passed, skipped, failed, retried, parsing, hook).
    pub stats: [usize; 6],
    /// Scripted verdict; `None` = the trait's default (derived from the counters).
    pub verdict: Option<bool>,
}

impl RecW {
    pub fn new() -> (Self, Shared) {
        let sh = Shared::default();
        (RecW { sh: sh.clone(), stats: [0; 6], verdict: None }, sh)
    }
    pub fn with_stats(stats: [usize; 6]) -> (Self, Shared) {
        let sh = Shared::default();
        (RecW { sh: sh.clone(), stats, verdict: None }, sh)
    }
}

impl Writer<TW> for RecW {
    type Cli = cli::Empty;

    async fn handle_event(&mut self, ev: Item, _: &Self::Cli) {
        let n = self.sh.log.borrow().len();
        let fp = evrec::fingerprint(&ev, n, 0, 0, 0);
        self.sh.log.borrow_mut().push(Got::Event { token: token_of(&ev), fp, call: self.sh.call.get() });
    }
}

impl writer::Arbitrary<TW, String> for RecW {
    async fn write(&mut self, val: String) {
        self.sh.log.borrow_mut().push(Got::Write { val, call: self.sh.call.get() });
    }
}

impl writer::Stats<TW> for RecW {
    fn passed_steps(&self) -> usize {
        self.stats[0]
    }
    fn skipped_steps(&self) -> usize {
        self.stats[1]
    }
    fn failed_steps(&self) -> usize {
        self.stats[2]
    }
    fn retried_steps(&self) -> usize {
        self.stats[3]
    }
    fn parsing_errors(&self) -> usize {
        self.stats[4]
    }
    fn hook_errors(&self) -> usize {
        self.stats[5]
    }
    fn execution_has_failed(&self) -> bool {
        // a writer may have its own notion of failure (as `Summarize` has for retried attempts)
        self.verdict.unwrap_or(self.stats[2] > 0 || self.stats[4] > 0 || self.stats[5] > 0)
    }
}

impl writer::NonTransforming for RecW {}
impl writer::Normalized for RecW {}

impl Shared {
    pub fn events(&self) -> Vec<(Option<u64>, Rec, usize)> {
        self.log
            .borrow()
            .iter()
            .filter_map(|g| match g {
                Got::Event { token, fp, call } => Some((*token, fp.clone(), *call)),
                Got::Write { .. } => None,
            })
            .collect()
    }
}

/// Comparable identity of an event (ignores receipt bookkeeping).
pub fn same_event(a: &Rec, b: &Rec) -> bool {
    a.ev == b.ev && a.f == b.f && a.r == b.r && a.s == b.s && a.retries == b.retries && a.at == b.at
}

/// Collects the items themselves (used to normalize a raw stream first).
#[derive(Clone, Default)]
pub struct Collect(pub Rc<RefCell<Vec<Item>>>);

impl writer::NonTransforming for Collect {}

impl Writer<TW> for Collect {
    type Cli = cli::Empty;
    async fn handle_event(&mut self, ev: Item, _: &Self::Cli) {
        self.0.borrow_mut().push(ev);
    }
}

impl writer::Normalized for Collect {}

// no statistics of its own: all zero (so Tee's maximum is the other side's)
impl writer::Stats<TW> for Collect {
    fn passed_steps(&self) -> usize {
        0
    }
    fn skipped_steps(&self) -> usize {
        0
    }
    fn failed_steps(&self) -> usize {
        0
    }
    fn retried_steps(&self) -> usize {
        0
    }
    fn parsing_errors(&self) -> usize {
        0
    }
    fn hook_errors(&self) -> usize {
        0
    }
}

/// Runs a raw stream through the real `Normalize` and returns what comes out.
pub fn normalize(items: &[Item]) -> Vec<Item> {
    let c = Collect::default();
    let mut w = writer::Normalize::<TW, Collect>::new(c.clone());
    futures::executor::block_on(async {
        for it in items {
            w.handle_event(it.clone(), &cli::Empty).await;
        }
    });
    let v = c.0.borrow().clone();
    v
}
