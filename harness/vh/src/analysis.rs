//! Structures derived from a run (event stream + callback log) that several
//! oracles share: per-scenario expectations written from the property
//! statements, attempts extracted from the stream, callback groups.

use std::collections::{BTreeMap, HashMap};

use crate::{
    evrec::{Ent, Ev, HookEv, Payload, Rec, ScEv, StepErr, StepEv},
    exec::RunOutput,
    spec::{CaseSpec, Cfg, FeatSpec, RuleSpec, ScSpec, StepKind, StepSpec},
    world::{Cb, CbKind, CbOutcome},
};

/// Parsed form of one of the four well-formed retry tags.
pub fn parse_retry_tag(t: &str) -> Option<(Option<usize>, Option<u64>)> {
    // retry | retry(N) | retry.after(Dms) | retry(N).after(Dms), D also in `us`; the delay is returned in microseconds
    let rest = t.strip_prefix("retry")?;
    let (n, rest) = if let Some(r) = rest.strip_prefix('(') {
        let (num, rest) = r.split_once(')')?;
        (Some(num.parse::<usize>().ok()?), rest)
    } else {
        (None, rest)
    };
    if rest.is_empty() {
        return Some((n, None));
    }
    let d = rest.strip_prefix(".after(")?.strip_suffix(')')?;
    let us = match (d.strip_suffix("ms"), d.strip_suffix("us")) {
        (Some(ms), _) => ms.parse::<u64>().ok()? * 1000,
        (_, Some(us)) => us.parse::<u64>().ok()?,
        _ => return None,
    };
    Some((n, Some(us)))
}

/// Hand-written evaluators for the generator's fixed filter expressions.
pub fn eval_filter(expr: &str, tags: &[&str]) -> bool {
    let has = |t: &str| tags.contains(&t);
    match expr {
        "@a" => has("a"),
        "@b or @slow" => has("b") || has("slow"),
        "not @wip" => !has("wip"),
        "@a and not @b" => has("a") && !has("b"),
        "@serial or @a" => has("serial") || has("a"),
        other => panic!("no evaluator for filter {other}"),
    }
}

/// Retry budget and delay (microseconds) a scenario must get, written from the C18
/// statement: nearest tag, then CLI, then builder, then (1, none).
pub fn expected_retry(
    f: &FeatSpec,
    r: Option<&RuleSpec>,
    s: &ScSpec,
    cfg: &Cfg,
) -> Option<(usize, Option<u64>)> {
    let find = |tags: &[String]| tags.iter().find_map(|t| parse_retry_tag(t));
    let tag = find(&s.tags).or_else(|| r.and_then(|r| find(&r.tags))).or_else(|| find(&f.tags));
    let conf_retry = cfg.cli_retry.or(cfg.b_retry);
    let conf_after = cfg.cli_retry_after_us.or(cfg.b_retry_after_us);
    let filter = cfg.cli_filter.as_ref().or(cfg.b_filter.as_ref());
    if let Some((n, d)) = tag {
        return Some((n.or(conf_retry).unwrap_or(1), d.or(conf_after)));
    }
    let inherited: Vec<&str> = s
        .tags
        .iter()
        .chain(r.iter().flat_map(|r| &r.tags))
        .chain(&f.tags)
        .map(String::as_str)
        .collect();
    let retried = match filter {
        Some(expr) => eval_filter(expr, &inherited),
        None => conf_retry.is_some() || conf_after.is_some(),
    };
    retried.then(|| (conf_retry.unwrap_or(1), conf_after))
}

pub struct ScInfo<'a> {
    pub f: &'a FeatSpec,
    pub r: Option<&'a RuleSpec>,
    pub s: &'a ScSpec,
    pub serial: bool,
    pub retry: Option<(usize, Option<u64>)>,
    /// `Retries::current` of the first attempt (non-zero only under a custom retry options function).
    pub retry_start: usize,
    /// feature background ++ rule background ++ own steps; bool = background.
    pub steps: Vec<(&'a StepSpec, bool)>,
    pub allow_skipped: bool,
    /// Index of the parser item that carries the scenario.
    pub item: usize,
}

#[derive(Clone, Debug)]
pub struct Attempt {
    pub sc_uid: u32,
    pub s_ptr: usize,
    pub f: Ent,
    pub r: Option<Ent>,
    pub retries: Option<(usize, usize)>,
    /// Indices into `out.evs`.
    pub evs: Vec<usize>,
    pub started: Option<usize>,
    pub finished: Option<usize>,
    pub step_failed: bool,
    pub hook_failed: bool,
    pub skipped: bool,
    pub group: Option<usize>,
    pub failed_world_new: Option<usize>,
}

impl Attempt {
    pub fn failed(&self) -> bool {
        self.step_failed || self.hook_failed
    }
    pub fn is_final_failure(&self) -> bool {
        self.failed() && self.retries.is_none_or(|(_, left)| left == 0)
    }
}

#[derive(Clone, Debug)]
pub struct Group {
    pub sc_uid: Option<u32>,
    pub world: Option<u64>,
    /// Indices into `out.cbs`, in order.
    pub cbs: Vec<usize>,
    pub first_enter_seq: u64,
    pub last_exit_seq: Option<u64>,
    pub consumed: bool,
}

pub struct Analysis<'a> {
    pub case: &'a CaseSpec,
    pub out: &'a RunOutput,
    pub sc: BTreeMap<u32, ScInfo<'a>>,
    pub attempts: Vec<Attempt>,
    pub by_sc: BTreeMap<u32, Vec<usize>>,
    pub groups: Vec<Group>,
    /// Problems found while building (reported by the relevant oracle).
    pub build_issues: Vec<(&'static str, String)>,
    /// Items the parser stream actually yielded (indices into case.items).
    pub pulled_items: Vec<usize>,
    /// Index (into evs) of the Finished event of the first finally-failed attempt.
    pub first_final_failure: Option<usize>,
}

/// One expected identified callback of an attempt.
#[derive(Clone, Debug, PartialEq, Eq)]
pub struct ExpCb {
    pub kind: CbKind,
    pub text: String,
}

impl<'a> Analysis<'a> {
    pub fn new(case: &'a CaseSpec, out: &'a RunOutput) -> Self {
        let mut sc = BTreeMap::new();
        for (item_idx, it) in case.items.iter().enumerate() {
            let crate::spec::Item::Feat(f) = it else { continue };
            let mut add = |r: Option<&'a RuleSpec>, s: &'a ScSpec| {
                let inherited: Vec<&str> = s
                    .tags
                    .iter()
                    .chain(r.iter().flat_map(|r| &r.tags))
                    .chain(&f.tags)
                    .map(String::as_str)
                    .collect();
                let serial = if case.cfg.custom_which {
                    s.name.contains("SOLO")
                } else {
                    inherited.contains(&"serial")
                };
                let mut steps: Vec<(&StepSpec, bool)> = f.bg.iter().map(|s| (s, true)).collect();
                if let Some(r) = r {
                    steps.extend(r.bg.iter().map(|s| (s, true)));
                }
                steps.extend(s.steps.iter().map(|s| (s, false)));
                sc.insert(
                    s.uid,
                    ScInfo {
                        f,
                        r,
                        s,
                        serial,
                        retry: match crate::spec::resumed_tag(&s.tags).filter(|_| case.cfg.resume) {
                            Some((_, left)) => Some((left, None)),
                            None => expected_retry(f, r, s, &case.cfg),
                        },
                        retry_start: crate::spec::resumed_tag(&s.tags).filter(|_| case.cfg.resume).map_or(0, |x| x.0),
                        steps,
                        allow_skipped: inherited.contains(&"allow.skipped"),
                        item: item_idx,
                    },
                );
            };
            for s in &f.scenarios {
                add(None, s);
            }
            for r in &f.rules {
                for s in &r.scenarios {
                    add(Some(r), s);
                }
            }
        }

        let mut issues: Vec<(&'static str, String)> = Vec::new();

        // ---- attempts from the stream ----
        let mut attempts: Vec<Attempt> = Vec::new();
        let mut key_to_attempt: HashMap<(usize, Option<(usize, usize)>), usize> = HashMap::new();
        for rec in &out.evs {
            let Ev::Sc(sev) = &rec.ev else { continue };
            let (Some(s), Some(f)) = (rec.s, rec.f) else { continue };
            let key = (s.ptr, rec.retries);
            let ai = *key_to_attempt.entry(key).or_insert_with(|| {
                attempts.push(Attempt {
                    sc_uid: s.uid,
                    s_ptr: s.ptr,
                    f,
                    r: rec.r,
                    retries: rec.retries,
                    evs: Vec::new(),
                    started: None,
                    finished: None,
                    step_failed: false,
                    hook_failed: false,
                    skipped: false,
                    group: None,
                    failed_world_new: None,
                });
                attempts.len() - 1
            });
            let a = &mut attempts[ai];
            a.evs.push(rec.idx);
            if a.f != f || a.r != rec.r {
                issues.push((
                    "C03",
                    format!("scenario s{} reported under different feature/rule sources: {}", s.uid, rec.short()),
                ));
            }
            match sev {
                ScEv::Started => {
                    if a.started.is_some() {
                        issues.push(("C02", format!("second Started for the same attempt: {}", rec.short())));
                    }
                    a.started.get_or_insert(rec.idx);
                }
                ScEv::Finished => {
                    if a.finished.is_some() {
                        issues.push(("C02", format!("second Finished for the same attempt: {}", rec.short())));
                    }
                    a.finished.get_or_insert(rec.idx);
                }
                ScEv::Step { ev: StepEv::Failed { .. }, .. } => a.step_failed = true,
                ScEv::Step { ev: StepEv::Skipped, .. } => a.skipped = true,
                ScEv::Hook { ev: HookEv::Failed { .. }, .. } => a.hook_failed = true,
                _ => {}
            }
        }
        let mut by_sc: BTreeMap<u32, Vec<usize>> = BTreeMap::new();
        for (i, a) in attempts.iter().enumerate() {
            by_sc.entry(a.sc_uid).or_default().push(i);
        }
        for v in by_sc.values_mut() {
            v.sort_by_key(|i| attempts[*i].evs[0]);
        }
        let first_final_failure = attempts
            .iter()
            .filter(|a| a.is_final_failure())
            .filter_map(|a| a.finished)
            .min();

        // ---- callback groups ----
        let mut groups: Vec<Group> = Vec::new();
        let mut by_world: HashMap<u64, usize> = HashMap::new();
        for (i, cb) in out.cbs.iter().enumerate() {
            match (cb.kind, cb.world) {
                (_, Some(w)) => {
                    let gi = *by_world.entry(w).or_insert_with(|| {
                        groups.push(Group {
                            sc_uid: None,
                            world: Some(w),
                            cbs: Vec::new(),
                            first_enter_seq: cb.enter_seq,
                            last_exit_seq: None,
                            consumed: false,
                        });
                        groups.len() - 1
                    });
                    let g = &mut groups[gi];
                    g.cbs.push(i);
                    if let Some(u) = cb.sc_uid {
                        match g.sc_uid {
                            None => g.sc_uid = Some(u),
                            Some(prev) if prev != u => issues.push((
                                "C09",
                                format!("World #{w} seen by scenarios s{prev} and s{u}"),
                            )),
                            _ => {}
                        }
                    }
                    g.last_exit_seq = cb.exit_seq.max(g.last_exit_seq);
                }
                (CbKind::After, None) => groups.push(Group {
                    sc_uid: cb.sc_uid,
                    world: None,
                    cbs: vec![i],
                    first_enter_seq: cb.enter_seq,
                    last_exit_seq: cb.exit_seq,
                    consumed: false,
                }),
                // failed World::new: attributed through the payload token below
                (CbKind::WorldNew, None) => {}
                (k, None) => issues.push(("C09", format!("{k:?} callback without a World"))),
            }
        }

        let pulled_items = out
            .pulls
            .iter()
            .filter_map(|p| p.what.strip_prefix("item:").and_then(|n| n.parse().ok()))
            .collect();

        let mut an = Analysis {
            case,
            out,
            sc,
            attempts,
            by_sc,
            groups,
            build_issues: issues,
            pulled_items,
            first_final_failure,
        };
        an.attribute();
        an
    }

    pub fn ev(&self, i: usize) -> &Rec {
        &self.out.evs[i]
    }

    /// Callbacks (with scenario identity) an attempt must have produced,
    /// derived from its events.
    pub fn expected_cbs(&self, a: &Attempt) -> Vec<ExpCb> {
        let mut v = Vec::new();
        let name = self.sc.get(&a.sc_uid).map_or(String::new(), |i| i.s.name.clone());
        for &i in &a.evs {
            match self.ev(i).is_sc() {
                Some(ScEv::Hook { before: true, ev: HookEv::Passed }) => {
                    v.push(ExpCb { kind: CbKind::Before, text: name.clone() });
                }
                Some(ScEv::Hook { before: true, ev: HookEv::Failed { world: Some(_), .. } }) => {
                    v.push(ExpCb { kind: CbKind::Before, text: name.clone() });
                }
                Some(ScEv::Step { text, ev: StepEv::Passed, .. }) => {
                    v.push(ExpCb { kind: CbKind::Step, text: text.clone() });
                }
                Some(ScEv::Step {
                    text,
                    ev: StepEv::Failed { err: StepErr::Panic(_), world: Some(_), .. },
                    ..
                }) => v.push(ExpCb { kind: CbKind::Step, text: text.clone() }),
                _ => {}
            }
        }
        // The deferred failure event of a step / before hook is emitted after
        // the after hook ran, but the callback order is hook-last.
        if self.case.cfg.after_hook && a.finished.is_some() {
            v.push(ExpCb { kind: CbKind::After, text: name });
        }
        v
    }

    fn attribute(&mut self) {
        // failed World::new callbacks by token
        let mut failed_wn: HashMap<u64, usize> = HashMap::new();
        for (i, cb) in self.out.cbs.iter().enumerate() {
            if cb.kind == CbKind::WorldNew {
                match cb.outcome {
                    CbOutcome::Err(t) | CbOutcome::Panic(_, t) => {
                        failed_wn.insert(t, i);
                    }
                    _ => {}
                }
            }
        }
        let tokens_of = |a: &Attempt, out: &RunOutput| -> Vec<u64> {
            a.evs
                .iter()
                .filter_map(|&i| match out.evs[i].is_sc()? {
                    ScEv::Hook { ev: HookEv::Failed { payload, world: None }, .. } => payload.token(),
                    ScEv::Step { ev: StepEv::Failed { err: StepErr::Panic(p), world: None, .. }, .. } => {
                        p.token()
                    }
                    _ => None,
                })
                .collect()
        };
        for ai in 0..self.attempts.len() {
            for t in tokens_of(&self.attempts[ai], self.out) {
                if let Some(&cb) = failed_wn.get(&t) {
                    self.attempts[ai].failed_world_new = Some(cb);
                }
            }
        }

        // groups -> attempts, per scenario in order
        let mut order: Vec<usize> = (0..self.groups.len()).collect();
        order.sort_by_key(|g| self.groups[*g].first_enter_seq);
        // Attempts in the order of their first event: preserves per-scenario
        // order and, for groups without scenario identity (background steps
        // only, no hooks), follows the order in which Worlds were requested.
        let mut ais: Vec<usize> = (0..self.attempts.len()).collect();
        ais.sort_by_key(|i| self.attempts[*i].evs[0]);
        for ai in ais {
            let uid = self.attempts[ai].sc_uid;
            let exp = self.expected_cbs(&self.attempts[ai]);
            if exp.is_empty() {
                continue;
            }
            let identified = exp.iter().any(|e| {
                e.kind != CbKind::Step || e.text.split_whitespace().nth(1).is_some_and(|o| o.starts_with('s'))
            });
            let pick = if identified {
                order.iter().copied().find(|g| {
                    let g = &self.groups[*g];
                    !g.consumed && g.sc_uid == Some(uid)
                })
            } else {
                let texts: Vec<&str> = exp.iter().map(|e| e.text.as_str()).collect();
                order.iter().copied().find(|g| {
                    let g = &self.groups[*g];
                    !g.consumed
                        && g.sc_uid.is_none()
                        && g.cbs
                            .iter()
                            .filter(|c| self.out.cbs[**c].kind != CbKind::WorldNew)
                            .map(|c| self.out.cbs[*c].text.as_str())
                            .eq(texts.iter().copied())
                })
            };
            if let Some(g) = pick {
                self.groups[g].consumed = true;
                self.attempts[ai].group = Some(g);
            }
        }
    }

    pub fn cb(&self, i: usize) -> &Cb {
        &self.out.cbs[i]
    }

    /// Witness rendering of an attempt's events.
    pub fn attempt_words(&self, a: &Attempt) -> Vec<String> {
        a.evs.iter().map(|&i| self.ev(i).short()).collect()
    }

    pub fn payload_matches(p: &Payload, outcome: &CbOutcome) -> bool {
        use crate::spec::PanicKind as K;
        match (p, outcome) {
            (Payload::Str(s), CbOutcome::Panic(K::String, t)) => s == &format!("boom#{t}#"),
            (Payload::StaticStr(s), CbOutcome::Panic(K::Str, t)) => {
                s == crate::world::STATIC_MSGS[(*t % 8) as usize]
            }
            (Payload::Custom(c), CbOutcome::Panic(K::Custom, t)) => c == t,
            (Payload::Int(i), CbOutcome::Panic(K::Int, t)) => *i as u64 == *t,
            _ => false,
        }
    }

    pub fn step_kind(&self, uid: u32, pos: usize) -> Option<StepKind> {
        self.sc.get(&uid)?.steps.get(pos).map(|(s, _)| s.kind)
    }
}
