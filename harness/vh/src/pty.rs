//! A pseudo-terminal of a chosen width as the process's standard output, for the moment a
//! reporter is constructed (`writer::Basic` asks `console::Term::stdout()` for the width then and
//! keeps it). Linux only, plain libc calls.

use std::{
    ffi::{CStr, c_char, c_int, c_ulong},
    fs,
    os::{fd::AsRawFd as _, unix::fs::OpenOptionsExt as _},
};

unsafe extern "C" {
    fn grantpt(fd: c_int) -> c_int;
    fn unlockpt(fd: c_int) -> c_int;
    fn ptsname_r(fd: c_int, buf: *mut c_char, len: usize) -> c_int;
    fn ioctl(fd: c_int, req: c_ulong, ...) -> c_int;
    fn dup(fd: c_int) -> c_int;
    fn dup2(old: c_int, new: c_int) -> c_int;
    fn close(fd: c_int) -> c_int;
}

const O_NOCTTY: i32 = 0o400;
const TIOCSWINSZ: c_ulong = 0x5414;

#[repr(C)]
struct Winsize {
    row: u16,
    col: u16,
    xpixel: u16,
    ypixel: u16,
}

/// Runs `f` while fd 1 is a pseudo-terminal `cols` wide; `None` if no terminal can be had here.
pub fn with_stdout_on_terminal<T>(cols: u16, f: impl FnOnce() -> T) -> Option<T> {
    let master = fs::OpenOptions::new().read(true).write(true).custom_flags(O_NOCTTY).open("/dev/ptmx").ok()?;
    let mut name = [0 as c_char; 128];
    // SAFETY: plain libc calls on descriptors owned here; `name` outlives the calls.
    let slave = unsafe {
        if grantpt(master.as_raw_fd()) != 0 || unlockpt(master.as_raw_fd()) != 0 || ptsname_r(master.as_raw_fd(), name.as_mut_ptr(), name.len()) != 0 {
            return None;
        }
        let name = CStr::from_ptr(name.as_ptr()).to_str().ok()?.to_owned();
        fs::OpenOptions::new().read(true).write(true).custom_flags(O_NOCTTY).open(name).ok()?
    };
    let size = Winsize { row: 24, col: cols, xpixel: 0, ypixel: 0 };
    // SAFETY: as above; fd 1 is restored before returning.
    unsafe {
        if ioctl(slave.as_raw_fd(), TIOCSWINSZ, &size) != 0 {
            return None;
        }
        let saved = dup(1);
        if saved < 0 {
            return None;
        }
        if dup2(slave.as_raw_fd(), 1) != 1 {
            _ = close(saved);
            return None;
        }
        // restores fd 1 also when `f` unwinds
        struct Restore(c_int);
        impl Drop for Restore {
            fn drop(&mut self) {
                // SAFETY: `self.0` is the descriptor saved above, closed exactly once here.
                unsafe {
                    _ = dup2(self.0, 1);
                    _ = close(self.0);
                }
            }
        }
        let restore = Restore(saved);
        let out = f();
        drop(restore);
        Some(out)
    }
}
