//! Verification harness for cucumber-rs: runtime monitors over the real crate.
pub mod analysis;
pub mod evrec;
pub mod exec;
pub mod oracles_run;
pub mod oracles_stream;
pub mod oracles_trace;
pub mod pipelines;
pub mod pure;
pub mod recw;
pub mod report;
pub mod reporters;
pub mod rng;
pub mod spec;
pub mod synth;
pub mod world;
