//! Verification harness for cucumber-rs: runtime monitors over the real crate.
pub mod analysis;
pub mod evrec;
pub mod exec;
pub mod oracles_run;
#[cfg(feature = "writers")]
pub mod oracles_stream;
pub mod oracles_trace;
#[cfg(feature = "writers")]
pub mod pipelines;
#[cfg(all(feature = "writers", target_os = "linux"))]
pub mod pty;
#[cfg(feature = "writers")]
pub mod pure;
#[cfg(feature = "writers")]
pub mod recw;
pub mod report;
#[cfg(feature = "writers")]
pub mod reporters;
pub mod rng;
pub mod spec;
#[cfg(feature = "writers")]
pub mod synth;
pub mod world;
