//! C14: runs the built-in reporters on a stream and dumps their bytes together
//! with the facts of the (normalized) stream for the Python parse-back oracles.

use std::panic::{self, AssertUnwindSafe};

use cucumber::{
    event::{Cucumber, Feature, Hook, HookType, Rule, Scenario, Step, StepError},
    parser,
    writer::{self, Coloring},
};
use serde_json::{Value, json};

use crate::{
    evrec::Item,
    pipelines::{SharedBuf, feed_cloning},
    recw,
    world::TW,
};

fn coerce(info: &cucumber::event::Info) -> String {
    info.downcast_ref::<String>()
        .cloned()
        .or_else(|| info.downcast_ref::<&str>().map(|s| (*s).to_owned()))
        .unwrap_or_else(|| "(Could not resolve panic payload)".into())
}

fn scenario_facts(
    out: &mut Vec<Value>,
    rule: Option<&cucumber::gherkin::Rule>,
    sc: &cucumber::gherkin::Scenario,
    ev: &cucumber::event::RetryableScenario<TW>,
) {
    let retry = ev.retries.map(|r| json!([r.current, r.left]));
    let left = ev.retries.map_or(0, |r| r.left);
    let step = |bg: bool, st: &cucumber::gherkin::Step, e: &Step<TW>, out: &mut Vec<Value>| {
        let (status, err, payload) = match e {
            Step::Started => return,
            Step::Passed(..) => ("passed", None, None),
            Step::Skipped => ("skipped", None, None),
            Step::Failed(_, _, _, err) => (
                match err {
                    StepError::NotFound => "undefined",
                    StepError::AmbiguousMatch(_) => "ambiguous",
                    StepError::Panic(_) => "failed",
                },
                Some(err.to_string()),
                match err {
                    StepError::Panic(i) => Some(coerce(i)),
                    _ => None,
                },
            ),
        };
        out.push(json!({"t": "step", "bg": bg, "keyword": st.keyword, "text": st.value, "line": st.position.line,
            "status": status, "err": err, "payload": payload, "retry_left": left}));
    };
    match &ev.event {
        Scenario::Started => out.push(json!({"t": "scenario", "name": sc.name, "line": sc.position.line, "col": sc.position.col,
            "retry": retry, "rule": rule.map(|r| r.name.clone()), "keyword": sc.keyword})),
        Scenario::Finished => out.push(json!({"t": "scenario_end"})),
        Scenario::Log(m) => out.push(json!({"t": "log", "msg": m})),
        Scenario::Hook(_, Hook::Started) => {}
        Scenario::Hook(ty, h) => out.push(json!({"t": "hook", "which": if matches!(ty, HookType::Before) { "Before" } else { "After" },
            "status": if matches!(h, Hook::Passed) { "passed" } else { "failed" },
            "msg": match h { Hook::Failed(_, i) => Some(coerce(i)), _ => None }, "retry_left": left})),
        Scenario::Background(st, e) => step(true, st, e, out),
        Scenario::Step(st, e) => step(false, st, e, out),
    }
}

/// Facts of a normalized stream, in order.
pub fn facts(norm: &[Item]) -> Vec<Value> {
    let mut out = Vec::new();
    for it in norm {
        match it {
            Err(e) => {
                let (kind, path) = match e {
                    parser::Error::Parsing(p) => (
                        "parsing",
                        match &**p {
                            cucumber::gherkin::ParseFileError::Reading { path, .. }
                            | cucumber::gherkin::ParseFileError::Parsing { path, .. } => path.to_str().map(str::to_owned),
                        },
                    ),
                    parser::Error::ExampleExpansion(x) => ("expansion", x.path.as_ref().and_then(|p| p.to_str().map(str::to_owned))),
                };
                let inner = match e {
                    parser::Error::Parsing(p) => p.to_string(),
                    parser::Error::ExampleExpansion(x) => x.to_string(),
                };
                out.push(json!({"t": "parse_error", "kind": kind, "path": path, "msg": e.to_string(), "inner": inner}));
            }
            Ok(ev) => match &ev.value {
                Cucumber::Started => {}
                Cucumber::ParsingFinished { steps, parser_errors, .. } => {
                    out.push(json!({"t": "parsing_finished", "steps": steps, "parser_errors": parser_errors}));
                }
                Cucumber::Finished => out.push(json!({"t": "finished"})),
                Cucumber::Feature(f, fe) => match fe {
                    Feature::Started => out.push(json!({"t": "feature", "name": f.name, "keyword": f.keyword,
                        "path": f.path.as_ref().and_then(|p| p.to_str().map(str::to_owned)), "bg_keyword": f.background.as_ref().map(|b| b.keyword.clone())})),
                    Feature::Finished => out.push(json!({"t": "feature_end"})),
                    Feature::Scenario(sc, e) => scenario_facts(&mut out, None, sc, e),
                    Feature::Rule(r, re) => match re {
                        Rule::Started => out.push(json!({"t": "rule", "name": r.name, "line": r.position.line, "keyword": r.keyword})),
                        Rule::Finished => out.push(json!({"t": "rule_end"})),
                        Rule::Scenario(sc, e) => scenario_facts(&mut out, Some(r), sc, e),
                    },
                },
            },
        }
    }
    out
}

fn guarded(f: impl FnOnce() -> String) -> Value {
    match panic::catch_unwind(AssertUnwindSafe(f)) {
        Ok(s) => json!({"ok": s}),
        Err(p) => json!({"panic": format!("{:?}", crate::evrec::payload_of(&std::sync::Arc::from(p)))}),
    }
}

/// One dump record: facts + the bytes every reporter wrote for `items` (raw stream).
pub fn dump_case(idx: u64, items: &[Item], opt: u64, flags: Value) -> Value {
    let norm = recw::normalize(items);
    let verbosity = (opt % 3) as u8; // Basic / JUnit verbosity
    let show_output = opt % 2 == 1;
    let report_time = opt % 5 == 0;
    // every 4th case hands the second half of the stream to a clone of the reporter
    let clone_at = (opt % 4 == 1 && items.len() > 3).then_some(items.len() / 2);
    // every 3rd case writes into a sink that takes at most 13 bytes per write() call
    let short_writes = opt % 3 == 2;
    let sink = || if short_writes { SharedBuf::chunked(13) } else { SharedBuf::default() };

    // every other case the reporters' options arrive the way a user's do: as command-line arguments
    // parsed by the crate's own `clap` definitions (`-v` counts, `--color`, `--format json`,
    // `--show-output`, `--report-time`, `--junit-v`), the constructors getting the neutral values
    let via_argv = (opt / 7) % 2 == 1;
    let basic_cli = move |color: Coloring| -> (u8, writer::basic::Cli) {
        if via_argv {
            type O = cucumber::cli::Opts<cucumber::cli::Empty, cucumber::cli::Empty, writer::basic::Cli, cucumber::cli::Empty>;
            let mut argv = vec!["prog".to_owned(), format!("-{}", "v".repeat(usize::from(verbosity) + 1))];
            argv.extend(["--color".to_owned(), if matches!(color, Coloring::Always) { "always" } else { "never" }.to_owned()]);
            let o = <O as cucumber::cli::Parser>::try_parse_from(&argv).unwrap_or_else(|e| panic!("the crate's CLI rejected {argv:?}: {e}"));
            (0, o.writer)
        } else {
            (verbosity, writer::basic::Cli { verbose: 0, color })
        }
    };
    let basic = guarded(|| {
        let buf = sink();
        let (v, cli) = basic_cli(Coloring::Never);
        let mut w = writer::Basic::new::<TW>(buf.clone(), if via_argv { Coloring::Auto } else { Coloring::Never }, v);
        feed_cloning(&mut w, items, &cli, clone_at);
        buf.text()
    });
    // the terminal reporter with coloring on: transient lines for started steps, erased again
    // (cursor up + erase line) when the result is known
    let colored = guarded(|| {
        let buf = sink();
        let (v, cli) = basic_cli(Coloring::Always);
        let mut w = writer::Basic::new::<TW>(buf.clone(), if via_argv { Coloring::Auto } else { Coloring::Always }, v);
        feed_cloning(&mut w, items, &cli, clone_at);
        buf.text()
    });
    // ... and constructed on a terminal of a known, narrow width (the reporter asks for the width of the
    // standard output when it is built): long transient lines wrap, and all their rows are erased
    let cols: u16 = [24, 31, 40, 57, 80][(opt / 3 % 5) as usize];
    #[cfg(target_os = "linux")]
    let narrow = guarded(|| {
        let buf = sink();
        let (v, cli) = basic_cli(Coloring::Always);
        // (the standard output stays that terminal for the whole run: the reporter looks at it again
        // whenever a `--color` option is applied)
        let ran = crate::pty::with_stdout_on_terminal(cols, || {
            let mut w = writer::Basic::new::<TW>(buf.clone(), if via_argv { Coloring::Auto } else { Coloring::Always }, v);
            feed_cloning(&mut w, items, &cli, clone_at);
        });
        match ran {
            Some(()) => buf.text(),
            None => "\u{0}no terminal".to_owned(),
        }
    });
    #[cfg(not(target_os = "linux"))]
    let narrow = json!({"ok": "\u{0}no terminal"});
    // the terminal reporter as `Basic::stdout()` builds it: with the summary at the end
    let summarized = guarded(|| {
        use cucumber::WriterExt as _;
        let buf = sink();
        let (v, cli) = basic_cli(Coloring::Never);
        let mut w = writer::Basic::new::<TW>(buf.clone(), if via_argv { Coloring::Auto } else { Coloring::Never }, v).summarized();
        feed_cloning(&mut w, items, &cli, clone_at);
        buf.text()
    });
    let libtest = guarded(|| {
        let buf = sink();
        let mut w = writer::Libtest::<TW, SharedBuf>::new(buf.clone());
        let cli = if via_argv {
            type O = cucumber::cli::Opts<cucumber::cli::Empty, cucumber::cli::Empty, writer::libtest::Cli, cucumber::cli::Empty>;
            let mut argv = vec!["prog".to_owned(), "--format".to_owned(), "json".to_owned()];
            if show_output {
                argv.push("--show-output".to_owned());
            }
            if report_time {
                // (a bare `--report-time` is rejected by the crate's CLI: `default_missing_value` without
                // `num_args(0..=1)`; outside the 20 properties, noted in DESIGN.md)
                if opt % 2 == 0 {
                    argv.extend(["--report-time".to_owned(), "plain".to_owned()]);
                } else {
                    argv.push("--report-time=plain".to_owned());
                }
            }
            <O as cucumber::cli::Parser>::try_parse_from(&argv).unwrap_or_else(|e| panic!("the crate's CLI rejected {argv:?}: {e}")).writer
        } else {
            writer::libtest::Cli {
                format: None,
                show_output,
                report_time: report_time.then_some(writer::libtest::ReportTime::Plain),
                nightly: None,
            }
        };
        feed_cloning(&mut w, items, &cli, clone_at);
        buf.text()
    });
    let jsonr = guarded(|| {
        let buf = sink();
        let mut w = writer::Json::new::<TW>(buf.clone());
        feed_cloning(&mut w, items, &cucumber::cli::Empty, clone_at);
        buf.text()
    });
    let junit = guarded(|| {
        let buf = sink();
        let (v, cli) = if via_argv {
            type O = cucumber::cli::Opts<cucumber::cli::Empty, cucumber::cli::Empty, writer::junit::Cli, cucumber::cli::Empty>;
            let argv = ["prog".to_owned(), "--junit-v".to_owned(), verbosity.min(1).to_string()];
            (0, <O as cucumber::cli::Parser>::try_parse_from(&argv).unwrap_or_else(|e| panic!("the crate's CLI rejected {argv:?}: {e}")).writer)
        } else {
            (verbosity.min(1), writer::junit::Cli { verbose: None })
        };
        let mut w = writer::JUnit::<TW, SharedBuf>::new(buf.clone(), v);
        feed_cloning(&mut w, items, &cli, clone_at);
        buf.text()
    });
    json!({
        "case_index": idx,
        "opts": {"verbosity": verbosity, "show_output": show_output, "report_time": report_time, "cloned_at": clone_at, "short_writes": short_writes, "options_from_argv": via_argv},
        "flags": flags,
        "facts": facts(&norm),
        "basic": basic, "libtest": libtest, "json": jsonr, "junit": junit,
        "colored": colored,
        "narrow": narrow, "narrow_cols": cols,
        "summarized": summarized, "expected_summary": crate::oracles_stream::expected_summary(items),
    })
}
