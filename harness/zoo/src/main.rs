//! C19 zoo: a representative set of `#[given]`/`#[when]`/`#[then]` annotated
//! functions (compiled by the current /repo/codegen), a hand-written matcher
//! table saying which definition each (world, keyword, text) must select and
//! which arguments it must receive, and a corpus of step texts.

use std::{
    cell::RefCell,
    fmt,
    panic::{self, AssertUnwindSafe},
    str::FromStr,
};

use cucumber::{
    Parameter,
    codegen::WorldInventory,
    gherkin::{self, Step},
    given, then, when,
};
use futures::executor::block_on;
use regex::Regex;
use serde_json::{Value, json};

static QUIET: std::sync::atomic::AtomicBool = std::sync::atomic::AtomicBool::new(false);

thread_local! {
    static LOG: RefCell<Vec<String>> = const { RefCell::new(Vec::new()) };
}
fn rec(id: &str, args: String) {
    LOG.with(|l| l.borrow_mut().push(format!("{id}|{args}")));
}

#[derive(Debug, Default, cucumber::World)]
pub struct ZA {
    n: u32,
}

#[derive(Debug, cucumber::World)]
#[world(init = Self::make)]
pub struct ZB;
impl ZB {
    fn make() -> Self {
        ZB
    }
}

#[derive(Debug)]
pub struct ZooErr(String);
impl fmt::Display for ZooErr {
    fn fmt(&self, f: &mut fmt::Formatter<'_>) -> fmt::Result {
        write!(f, "zoo error: {}", self.0)
    }
}

/// Custom parameter with two alternative capturing groups.
#[derive(Debug, Parameter, PartialEq)]
#[param(name = "qty", regex = r"(\d+) pcs|(few|many)")]
pub enum Qty {
    Exact(u32),
    Vague(String),
}
impl FromStr for Qty {
    type Err = String;
    fn from_str(s: &str) -> Result<Self, String> {
        match s {
            "few" | "many" => Ok(Qty::Vague(s.to_owned())),
            n => n.parse().map(Qty::Exact).map_err(|e| format!("bad qty {n:?}: {e}")),
        }
    }
}

/// Custom parameter with nested groups: all of them are non-empty in a match.
#[derive(Debug, Parameter)]
#[param(name = "date", regex = r"((\d{4})-(\d{2})-(\d{2}))")]
pub struct Date(String);
impl FromStr for Date {
    type Err = String;
    fn from_str(s: &str) -> Result<Self, String> {
        if s.len() == 10 { Ok(Date(s.to_owned())) } else { Err(format!("not a date: {s:?}")) }
    }
}

/// Custom parameter with a default name (lower-cased type name) and one group.
#[derive(Debug, Parameter)]
#[param(regex = r"[A-Z]{3}")]
pub struct Cur(String);
impl FromStr for Cur {
    type Err = String;
    fn from_str(s: &str) -> Result<Self, String> {
        Ok(Cur(s.to_owned()))
    }
}

/// Two custom parameters whose names differ in their first letter only.
#[derive(Debug, Parameter)]
#[param(name = "cat", regex = r"meow|purr")]
pub struct Cat(String);
impl FromStr for Cat {
    type Err = String;
    fn from_str(s: &str) -> Result<Self, String> {
        Ok(Cat(s.to_owned()))
    }
}
#[derive(Debug, Parameter)]
#[param(name = "bat", regex = r"screech|flap")]
pub struct Bat(String);
impl FromStr for Bat {
    type Err = String;
    fn from_str(s: &str) -> Result<Self, String> {
        Ok(Bat(s.to_owned()))
    }
}

// ---- literals -------------------------------------------------------------
#[given("a literal step")]
fn lit_sync(w: &mut ZA) {
    w.n += 1;
    rec("lit_sync", String::new());
}

#[given("literal with (parens) and . dots? [x] a|b ^$ {n} \\d+")]
async fn lit_meta(_w: &mut ZA) {
    rec("lit_meta", String::new());
}

#[when("a literal step")]
fn lit_when(_w: &mut ZA) {
    rec("lit_when", String::new());
}

#[given("step with ctx")]
fn lit_step_attr(_w: &mut ZA, #[step] s: &Step) {
    rec("lit_step_attr", format!("{:?}", s.value));
}

#[then("step named ctx")]
async fn lit_step_named(_w: &mut ZA, step: &Step) {
    rec("lit_step_named", format!("{:?}", step.value));
}

#[given("costs 5$")]
fn lit_dollar(_w: &mut ZA) {
    rec("lit_dollar", String::new());
}

#[when("^caret first and last$")]
fn lit_anchors(_w: &mut ZA) {
    rec("lit_anchors", String::new());
}

#[given("tri one")]
#[when("tri two")]
#[then("tri three")]
fn tri(_w: &mut ZA) {
    rec("tri", String::new());
}

#[then("literal result err")]
fn lit_result(_w: &mut ZA) -> Result<(), ZooErr> {
    rec("lit_result", String::new());
    Err(ZooErr("from literal".into()))
}

// ---- regex ----------------------------------------------------------------
#[given(regex = r"^(\d+) apples$")]
fn re_int(_w: &mut ZA, n: u32) {
    rec("re_int", format!("{n:?}"));
}

#[given(regex = r"(\S+) owes (\S+) (\d+)")]
fn re_unanchored(_w: &mut ZA, a: String, b: String, n: i64) {
    rec("re_unanchored", format!("{a:?},{b:?},{n:?}"));
}

#[when(regex = r"^slice (\w+) (\w+) (\w+)$")]
fn re_slice(_w: &mut ZA, xs: &[String]) {
    rec("re_slice", format!("{xs:?}"));
}

#[when(regex = r"^ints (\d+),(\d+)$")]
async fn re_slice_int(_w: &mut ZA, xs: &[u8]) {
    rec("re_slice_int", format!("{xs:?}"));
}

#[when(regex = r"^maybe(?: (a))?(?: (b))?(?: (c))?$")]
fn re_opt_slice(_w: &mut ZA, xs: &[String]) {
    rec("re_opt_slice", format!("{xs:?}"));
}

#[then(regex = r"^opt (\d+)( and (\d+))?$")]
fn re_optional(_w: &mut ZA, a: u32, b: String, c: String) {
    rec("re_optional", format!("{a:?},{b:?},{c:?}"));
}

#[then(regex = r"^res (ok|err)$")]
fn re_result(_w: &mut ZA, what: String) -> Result<(), String> {
    rec("re_result", format!("{what:?}"));
    if what == "err" { Err("planned failure".into()) } else { Ok(()) }
}

#[then(regex = r"^async res (ok|err)$")]
async fn re_async_result(_w: &mut ZA, what: String) -> Result<(), ZooErr> {
    rec("re_async_result", format!("{what:?}"));
    if what == "err" { Err(ZooErr("async planned".into())) } else { Ok(()) }
}

// fallible steps whose return type is spelled through an alias (the macro sees no `Result`)
type Fallible<T = ()> = Result<T, String>;
type ZooOutcome = std::result::Result<(), ZooErr>;
mod alias {
    pub type Outcome = Result<(), String>;
}

#[when(regex = r"^alias res (ok|err)$")]
fn re_alias_result(_w: &mut ZA, what: String) -> Fallible {
    rec("re_alias_result", format!("{what:?}"));
    if what == "err" { Err("planned failure behind an alias".into()) } else { Ok(()) }
}

#[given(expr = "alias async {word}")]
async fn ex_alias_async(_w: &mut ZA, what: String) -> alias::Outcome {
    rec("ex_alias_async", format!("{what:?}"));
    if what == "err" { Err("async failure behind an alias".into()) } else { Ok(()) }
}

#[then("alias literal err")]
fn lit_alias_result(_w: &mut ZA) -> ZooOutcome {
    rec("lit_alias_result", String::new());
    Err(ZooErr("behind an alias".into()))
}

// fallible steps whose return type reaches the attribute macro wrapped in another syntax node:
// parenthesized, or as a `$ret:ty` fragment of a user macro (a `Type::Group`)
#[allow(unused_parens)]
#[when(regex = r"^paren res (ok|err)$")]
fn re_paren_result(_w: &mut ZA, what: String) -> (Result<(), String>) {
    rec("re_paren_result", format!("{what:?}"));
    if what == "err" { Err("planned failure in parentheses".into()) } else { Ok(()) }
}

macro_rules! gen_step {
    ($name:ident, $id:literal, $text:literal, $ret:ty, $body:expr) => {
        #[given($text)]
        fn $name(_w: &mut ZA) -> $ret {
            rec($id, String::new());
            $body
        }
    };
}
gen_step!(lit_macro_ret_err, "lit_macro_ret_err", "macro made err", Result<(), String>, Err("from a macro-made step".into()));
gen_step!(lit_macro_ret_ok, "lit_macro_ret_ok", "macro made ok", Result<(), String>, Ok(()));

// user-named groups whose names start with a double underscore (the prefix the macro itself uses)
#[given(regex = r"^(?P<__user>\w+) logs in with (?P<__pass>\w+)$")]
fn re_dunder_named(_w: &mut ZA, user: String, pass: String) {
    rec("re_dunder_named", format!("{user:?},{pass:?}"));
}

#[when(expr = "the {cat} meets the {bat}")]
fn ex_twin_param_names(_w: &mut ZA, c: Cat, b: Bat) {
    rec("ex_twin_param_names", format!("{c:?},{b:?}"));
}

// user-named groups starting with `__` whose names are not ASCII
#[given(regex = r"^(?P<__é1_a>\d+) plus (?P<__é2_b>\d+) apples$")]
fn re_dunder_non_ascii(_w: &mut ZA, a: u32, b: u32) {
    rec("re_dunder_non_ascii", format!("{a:?},{b:?}"));
}

#[then(regex = r"^(?P<__1é_a>\w+) then (?P<__2é_b>\w+) then (?P<__3é_c>\w+) stop$")]
fn re_dunder_non_ascii_slice(_w: &mut ZA, xs: &[String]) {
    rec("re_dunder_non_ascii_slice", format!("{xs:?}"));
}

#[when(regex = r"^(?P<__a>\w+) and (?P<__b>\w+) log out$")]
fn re_dunder_named_slice(_w: &mut ZA, xs: &[String]) {
    rec("re_dunder_named_slice", format!("{xs:?}"));
}

// a custom parameter whose capture groups participate together (nested)
#[then(expr = "due on {date}")]
fn ex_nested_param(_w: &mut ZA, d: Date) {
    rec("ex_nested_param", format!("{:?}", d.0));
}

#[then(regex = r"^step arg (\d+)$")]
fn re_with_step(_w: &mut ZA, n: u8, #[step] st: &Step) {
    rec("re_with_step", format!("{n:?},{:?}", st.value));
}

#[when(regex = r"^named step (\w+) (\w+)$")]
fn re_named_step_slice(_w: &mut ZA, step: &Step, xs: &[String]) {
    rec("re_named_step_slice", format!("{:?},{xs:?}", step.value));
}

#[given(regex = r"^num (\S+)$")]
fn re_parse(_w: &mut ZA, n: u32) {
    rec("re_parse", format!("{n:?}"));
}

#[given(regex = r"^é(ü+) (?P<rest>.*)$")]
fn re_unicode(_w: &mut ZA, u: String, rest: String) {
    rec("re_unicode", format!("{u:?},{rest:?}"));
}

// ---- cucumber expressions -------------------------------------------------
#[given(expr = "{word} has {int} item(s)")]
fn ex_word_int(_w: &mut ZA, who: String, n: i32) {
    rec("ex_word_int", format!("{who:?},{n:?}"));
}

#[given(expr = "price is {float}")]
fn ex_float(_w: &mut ZA, p: f64) {
    rec("ex_float", format!("{p:?}"));
}

#[given(expr = "say {string}")]
async fn ex_string(_w: &mut ZA, s: String) {
    rec("ex_string", format!("{s:?}"));
}

#[when(expr = "pick red/green/blue")]
fn ex_alt(_w: &mut ZA) {
    rec("ex_alt", String::new());
}

#[when(expr = "order {qty} now")]
fn ex_custom(_w: &mut ZA, q: Qty) {
    rec("ex_custom", format!("{q:?}"));
}

#[when(expr = "pay in {cur}")]
fn ex_custom_default_name(_w: &mut ZA, c: Cur) {
    rec("ex_custom_default_name", format!("{:?}", c.0));
}

// the same custom parameter twice in a row, then a different one (names and types stay paired)
#[given(expr = "swap {cur} for {cur} at {qty}")]
fn ex_repeated_custom(_w: &mut ZA, a: Cur, b: Cur, q: Qty) {
    rec("ex_repeated_custom", format!("{:?},{:?},{q:?}", a.0, b.0));
}

#[when(expr = "{qty} then {qty} in {cur} or {cur}")]
fn ex_repeated_custom_twice(_w: &mut ZA, a: Qty, b: Qty, c: Cur, d: Cur) {
    rec("ex_repeated_custom_twice", format!("{a:?},{b:?},{:?},{:?}", c.0, d.0));
}

// more than ten parameters, multi-group ones at positions 1 and 10 (ids 1 and 10 share the prefix "__1")
#[given(expr = "big {word} {string} {int} {int} {int} {int} {int} {int} {int} {int} {string} {word}")]
#[allow(clippy::too_many_arguments)]
fn ex_many(_w: &mut ZA, a: String, s1: String, i2: i32, i3: i32, i4: i32, i5: i32, i6: i32, i7: i32, i8: i32, i9: i32, s10: String, z: String) {
    rec("ex_many", format!("{a:?},{s1:?},{i2},{i3},{i4},{i5},{i6},{i7},{i8},{i9},{s10:?},{z:?}"));
}

#[when(expr = "bigs {string} {string} {word} {word} {word} {word} {word} {word} {word} {word} {string} {word}")]
fn ex_many_slice(_w: &mut ZA, xs: &[String]) {
    rec("ex_many_slice", format!("{xs:?}"));
}

#[then(expr = "{int} and {int} and {word}")]
fn ex_order(_w: &mut ZA, a: i32, b: i32, c: String) {
    rec("ex_order", format!("{a:?},{b:?},{c:?}"));
}

#[then(expr = "all of {word} {word} {word}")]
fn ex_slice(_w: &mut ZA, xs: &[String]) {
    rec("ex_slice", format!("{xs:?}"));
}

#[given(expr = "{word} is {int}")]
#[when(regex = r"^(\S+) is (\d+)$")]
fn multi(_w: &mut ZA, a: String, n: i64) {
    rec("multi", format!("{a:?},{n:?}"));
}

#[then(expr = "anything {}")]
fn ex_anonymous(_w: &mut ZA, rest: String) {
    rec("ex_anonymous", format!("{rest:?}"));
}

#[then(expr = "escaped \\{brace} and \\(paren)")]
fn ex_escaped(_w: &mut ZA) {
    rec("ex_escaped", String::new());
}

// multi-group parameters followed by further arguments
#[given(expr = "{string} owes {int} coin(s)")]
fn ex_string_then_int(_w: &mut ZA, who: String, n: u32) {
    rec("ex_string_then_int", format!("{who:?},{n:?}"));
}

#[when(expr = "{string} pays {string} at {word}")]
async fn ex_two_strings(_w: &mut ZA, from: String, to: String, place: String) {
    rec("ex_two_strings", format!("{from:?},{to:?},{place:?}"));
}

#[when(expr = "{qty} of {word} for {int}")]
fn ex_custom_then_more(_w: &mut ZA, q: Qty, what: String, price: i32) {
    rec("ex_custom_then_more", format!("{q:?},{what:?},{price:?}"));
}

#[then(expr = "{string} likes {string} and {word}")]
fn ex_multi_slice(_w: &mut ZA, xs: &[String]) {
    rec("ex_multi_slice", format!("{xs:?}"));
}

#[then(regex = r"^(?:a(\d)|b(\d)) then (\w+)$")]
fn re_alt_groups(_w: &mut ZA, a: String, b: String, c: String) {
    rec("re_alt_groups", format!("{a:?},{b:?},{c:?}"));
}

// user-written named groups whose names share a prefix up to an underscore
#[given(regex = r"^range (?P<x_min>\d+)\.\.(?P<x_max>\d+) of (?P<x_unit>\w+)$")]
fn re_named_prefix_typed(_w: &mut ZA, lo: u32, hi: u32, unit: String) {
    rec("re_named_prefix_typed", format!("{lo:?},{hi:?},{unit:?}"));
}

#[when(regex = r"^user (?P<user_name>\w+) id (?P<user_id>\d+)$")]
fn re_named_prefix_slice(_w: &mut ZA, xs: &[String]) {
    rec("re_named_prefix_slice", format!("{xs:?}"));
}

// ---- second world ---------------------------------------------------------
#[given("a literal step")]
fn b_lit(_w: &mut ZB) {
    rec("b_lit", String::new());
}

#[when(regex = r"^only b (\d+)$")]
#[then(regex = r"^only b (\d+)$")]
async fn b_re(_w: &mut ZB, n: u16) {
    rec("b_re", format!("{n:?}"));
}

// ---------------------------------------------------------------------------
// The hand-written table: what was written above, restated independently.

#[derive(Clone, Copy, PartialEq, Eq, Debug)]
enum Kw {
    Given,
    When,
    Then,
}

enum How {
    /// Exact text only.
    Literal(&'static str),
    /// Regex exactly as written in the attribute (unanchored unless it says so).
    Re(&'static str),
    /// Cucumber Expression; the regex is this author's translation of the
    /// Cucumber Expressions specification for that expression.
    Expr(&'static str, &'static str),
}

struct Def {
    world: char,
    kw: Kw,
    id: &'static str,
    how: How,
    /// Given the capture groups (1..), what the function must record, or
    /// Err(substring of the panic message) when invoking it must fail.
    expect: fn(&[String], &str) -> Result<String, String>,
}

fn first_nonempty<'a>(xs: &[&'a String]) -> &'a str {
    xs.iter().find(|s| !s.is_empty()).map_or("", |s| s.as_str())
}

fn defs() -> Vec<Def> {
    use How::*;
    use Kw::*;
    let none = |_: &[String], _: &str| Ok(String::new());
    vec![
        Def { world: 'A', kw: Given, id: "lit_sync", how: Literal("a literal step"), expect: none },
        Def { world: 'A', kw: Given, id: "lit_meta", how: Literal("literal with (parens) and . dots? [x] a|b ^$ {n} \\d+"), expect: none },
        Def { world: 'A', kw: When, id: "lit_when", how: Literal("a literal step"), expect: none },
        Def { world: 'A', kw: Given, id: "lit_step_attr", how: Literal("step with ctx"), expect: |_, t| Ok(format!("{t:?}")) },
        Def { world: 'A', kw: Then, id: "lit_step_named", how: Literal("step named ctx"), expect: |_, t| Ok(format!("{t:?}")) },
        Def { world: 'A', kw: Given, id: "lit_dollar", how: Literal("costs 5$"), expect: none },
        Def { world: 'A', kw: When, id: "lit_anchors", how: Literal("^caret first and last$"), expect: none },
        Def { world: 'A', kw: Given, id: "tri", how: Literal("tri one"), expect: none },
        Def { world: 'A', kw: When, id: "tri", how: Literal("tri two"), expect: none },
        Def { world: 'A', kw: Then, id: "tri", how: Literal("tri three"), expect: none },
        Def { world: 'A', kw: Then, id: "lit_result", how: Literal("literal result err"), expect: |_, _| Err("zoo error: from literal".into()) },
        Def { world: 'A', kw: Given, id: "re_int", how: Re(r"^(\d+) apples$"), expect: |g, _| g[0].parse::<u32>().map(|n| format!("{n:?}")).map_err(|_| "can not be parsed".into()) },
        Def { world: 'A', kw: Given, id: "re_unanchored", how: Re(r"(\S+) owes (\S+) (\d+)"), expect: |g, _| g[2].parse::<i64>().map(|n| format!("{:?},{:?},{n:?}", g[0], g[1])).map_err(|_| "can not be parsed".into()) },
        Def { world: 'A', kw: When, id: "re_slice", how: Re(r"^slice (\w+) (\w+) (\w+)$"), expect: |g, _| Ok(format!("{g:?}")) },
        Def { world: 'A', kw: When, id: "re_slice_int", how: Re(r"^ints (\d+),(\d+)$"), expect: |g, _| g.iter().map(|s| s.parse::<u8>()).collect::<Result<Vec<_>, _>>().map(|v| format!("{v:?}")).map_err(|_| "Failed to parse element".into()) },
        Def { world: 'A', kw: When, id: "re_opt_slice", how: Re(r"^maybe(?: (a))?(?: (b))?(?: (c))?$"), expect: |g, _| Ok(format!("{g:?}")) },
        Def { world: 'A', kw: Then, id: "re_optional", how: Re(r"^opt (\d+)( and (\d+))?$"), expect: |g, _| g[0].parse::<u32>().map(|a| format!("{a:?},{:?},{:?}", g[1], g[2])).map_err(|_| "can not be parsed".into()) },
        Def { world: 'A', kw: Then, id: "re_result", how: Re(r"^res (ok|err)$"), expect: |g, _| if g[0] == "err" { Err("planned failure".into()) } else { Ok(format!("{:?}", g[0])) } },
        Def { world: 'A', kw: Then, id: "re_async_result", how: Re(r"^async res (ok|err)$"), expect: |g, _| if g[0] == "err" { Err("zoo error: async planned".into()) } else { Ok(format!("{:?}", g[0])) } },
        Def { world: 'A', kw: When, id: "re_alias_result", how: Re(r"^alias res (ok|err)$"), expect: |g, _| if g[0] == "err" { Err("planned failure behind an alias".into()) } else { Ok(format!("{:?}", g[0])) } },
        Def { world: 'A', kw: Given, id: "ex_alias_async", how: Expr("alias async {word}", r"^alias async ([^\s]+)$"), expect: |g, _| if g[0] == "err" { Err("async failure behind an alias".into()) } else { Ok(format!("{:?}", g[0])) } },
        Def { world: 'A', kw: Then, id: "lit_alias_result", how: Literal("alias literal err"), expect: |_, _| Err("zoo error: behind an alias".into()) },
        Def { world: 'A', kw: When, id: "re_paren_result", how: Re(r"^paren res (ok|err)$"), expect: |g, _| if g[0] == "err" { Err("planned failure in parentheses".into()) } else { Ok(format!("{:?}", g[0])) } },
        Def { world: 'A', kw: Given, id: "lit_macro_ret_err", how: Literal("macro made err"), expect: |_, _| Err("from a macro-made step".into()) },
        Def { world: 'A', kw: Given, id: "lit_macro_ret_ok", how: Literal("macro made ok"), expect: none },
        Def { world: 'A', kw: Given, id: "re_dunder_named", how: Re(r"^(?P<__user>\w+) logs in with (?P<__pass>\w+)$"), expect: |g, _| Ok(format!("{:?},{:?}", g[0], g[1])) },
        Def { world: 'A', kw: When, id: "ex_twin_param_names", how: Expr("the {cat} meets the {bat}", r"^the (meow|purr) meets the (screech|flap)$"), expect: |g, _| Ok(format!("Cat({:?}),Bat({:?})", g[0], g[1])) },
        Def { world: 'A', kw: Given, id: "re_dunder_non_ascii", how: Re(r"^(?P<__é1_a>\d+) plus (?P<__é2_b>\d+) apples$"), expect: |g, _| match (g[0].parse::<u32>(), g[1].parse::<u32>()) { (Ok(a), Ok(b)) => Ok(format!("{a:?},{b:?}")), _ => Err("can not be parsed".into()) } },
        Def { world: 'A', kw: Then, id: "re_dunder_non_ascii_slice", how: Re(r"^(?P<__1é_a>\w+) then (?P<__2é_b>\w+) then (?P<__3é_c>\w+) stop$"), expect: |g, _| Ok(format!("{g:?}")) },
        Def { world: 'A', kw: When, id: "re_dunder_named_slice", how: Re(r"^(?P<__a>\w+) and (?P<__b>\w+) log out$"), expect: |g, _| Ok(format!("{g:?}")) },
        Def { world: 'A', kw: Then, id: "ex_nested_param", how: Expr("due on {date}", r"^due on ((\d{4})-(\d{2})-(\d{2}))$"), expect: |g, _| if g[0].len() == 10 { Ok(format!("{:?}", g[0])) } else { Err("can not be parsed".into()) } },
        Def { world: 'A', kw: Then, id: "re_with_step", how: Re(r"^step arg (\d+)$"), expect: |g, t| g[0].parse::<u8>().map(|n| format!("{n:?},{t:?}")).map_err(|_| "can not be parsed".into()) },
        Def { world: 'A', kw: When, id: "re_named_step_slice", how: Re(r"^named step (\w+) (\w+)$"), expect: |g, t| Ok(format!("{t:?},{g:?}")) },
        Def { world: 'A', kw: Given, id: "re_parse", how: Re(r"^num (\S+)$"), expect: |g, _| g[0].parse::<u32>().map(|n| format!("{n:?}")).map_err(|_| "can not be parsed".into()) },
        Def { world: 'A', kw: Given, id: "re_unicode", how: Re(r"^é(ü+) (?P<rest>.*)$"), expect: |g, _| Ok(format!("{:?},{:?}", g[0], g[1])) },
        Def { world: 'A', kw: Given, id: "ex_word_int", how: Expr("{word} has {int} item(s)", r"^([^\s]+) has ((?:-?\d+)|(?:\d+)) item(?:s)?$"), expect: |g, _| g[1].parse::<i32>().map(|n| format!("{:?},{n:?}", g[0])).map_err(|_| "can not be parsed".into()) },
        Def { world: 'A', kw: Given, id: "ex_float", how: Expr("price is {float}", r"^price is ([+-]?(?:inf|NaN|(?:\d+|\d+\.\d*|\d*\.\d+)(?:[eE][+-]?\d+)?))$"), expect: |g, _| g[0].parse::<f64>().map(|p| format!("{p:?}")).map_err(|_| "can not be parsed".into()) },
        Def { world: 'A', kw: Given, id: "ex_string", how: Expr("say {string}", r#"^say (?:"([^"\\]*(?:\\.[^"\\]*)*)"|'([^'\\]*(?:\\.[^'\\]*)*)')$"#), expect: |g, _| Ok(format!("{:?}", first_nonempty(&[&g[0], &g[1]]))) },
        Def { world: 'A', kw: When, id: "ex_alt", how: Expr("pick red/green/blue", r"^pick (?:red|green|blue)$"), expect: none },
        Def { world: 'A', kw: When, id: "ex_custom", how: Expr("order {qty} now", r"^order (?:(\d+) pcs|(few|many)) now$"), expect: |g, _| {
            let s = first_nonempty(&[&g[0], &g[1]]);
            match s { "few" | "many" => Ok(format!("Vague({s:?})")), n => n.parse::<u32>().map(|n| format!("Exact({n})")).map_err(|_| "can not be parsed".into()) }
        } },
        Def { world: 'A', kw: Given, id: "ex_repeated_custom", how: Expr("swap {cur} for {cur} at {qty}", r"^swap ([A-Z]{3}) for ([A-Z]{3}) at (?:(\d+) pcs|(few|many))$"), expect: |g, _| {
            let s = first_nonempty(&[&g[2], &g[3]]);
            let q = match s { "few" | "many" => Ok(format!("Vague({s:?})")), n => n.parse::<u32>().map(|n| format!("Exact({n})")).map_err(|_| String::from("can not be parsed")) }?;
            Ok(format!("{:?},{:?},{q}", g[0], g[1]))
        } },
        Def { world: 'A', kw: When, id: "ex_repeated_custom_twice", how: Expr("{qty} then {qty} in {cur} or {cur}", r"^(?:(\d+) pcs|(few|many)) then (?:(\d+) pcs|(few|many)) in ([A-Z]{3}) or ([A-Z]{3})$"), expect: |g, _| {
            let q = |s: &str| match s { "few" | "many" => Ok(format!("Vague({s:?})")), n => n.parse::<u32>().map(|n| format!("Exact({n})")).map_err(|_| String::from("can not be parsed")) };
            Ok(format!("{},{},{:?},{:?}", q(first_nonempty(&[&g[0], &g[1]]))?, q(first_nonempty(&[&g[2], &g[3]]))?, g[4], g[5]))
        } },
        Def { world: 'A', kw: Given, id: "ex_many", how: Expr(
            "big {word} {string} {int} {int} {int} {int} {int} {int} {int} {int} {string} {word}",
            r#"^big ([^\s]+) (?:"([^"\\]*(?:\\.[^"\\]*)*)"|'([^'\\]*(?:\\.[^'\\]*)*)') ((?:-?\d+)|(?:\d+)) ((?:-?\d+)|(?:\d+)) ((?:-?\d+)|(?:\d+)) ((?:-?\d+)|(?:\d+)) ((?:-?\d+)|(?:\d+)) ((?:-?\d+)|(?:\d+)) ((?:-?\d+)|(?:\d+)) ((?:-?\d+)|(?:\d+)) (?:"([^"\\]*(?:\\.[^"\\]*)*)"|'([^'\\]*(?:\\.[^'\\]*)*)') ([^\s]+)$"#,
        ), expect: |g, _| {
            let ints: Result<Vec<i32>, _> = g[3..11].iter().map(|x| x.parse::<i32>()).collect();
            let ints = ints.map_err(|_| String::from("can not be parsed"))?;
            Ok(format!("{:?},{:?},{},{:?},{:?}", g[0], first_nonempty(&[&g[1], &g[2]]), ints.iter().map(i32::to_string).collect::<Vec<_>>().join(","), first_nonempty(&[&g[11], &g[12]]), g[13]))
        } },
        Def { world: 'A', kw: When, id: "ex_many_slice", how: Expr(
            "bigs {string} {string} {word} {word} {word} {word} {word} {word} {word} {word} {string} {word}",
            r#"^bigs (?:"([^"\\]*(?:\\.[^"\\]*)*)"|'([^'\\]*(?:\\.[^'\\]*)*)') (?:"([^"\\]*(?:\\.[^"\\]*)*)"|'([^'\\]*(?:\\.[^'\\]*)*)') ([^\s]+) ([^\s]+) ([^\s]+) ([^\s]+) ([^\s]+) ([^\s]+) ([^\s]+) ([^\s]+) (?:"([^"\\]*(?:\\.[^"\\]*)*)"|'([^'\\]*(?:\\.[^'\\]*)*)') ([^\s]+)$"#,
        ), expect: |g, _| {
            let mut v: Vec<String> = vec![first_nonempty(&[&g[0], &g[1]]).to_owned(), first_nonempty(&[&g[2], &g[3]]).to_owned()];
            v.extend(g[4..12].iter().cloned());
            v.push(first_nonempty(&[&g[12], &g[13]]).to_owned());
            v.push(g[14].clone());
            Ok(format!("{v:?}"))
        } },
        Def { world: 'A', kw: When, id: "ex_custom_default_name", how: Expr("pay in {cur}", r"^pay in ([A-Z]{3})$"), expect: |g, _| Ok(format!("{:?}", g[0])) },
        Def { world: 'A', kw: Then, id: "ex_order", how: Expr("{int} and {int} and {word}", r"^((?:-?\d+)|(?:\d+)) and ((?:-?\d+)|(?:\d+)) and ([^\s]+)$"), expect: |g, _| match (g[0].parse::<i32>(), g[1].parse::<i32>()) { (Ok(a), Ok(b)) => Ok(format!("{a:?},{b:?},{:?}", g[2])), _ => Err("can not be parsed".into()) } },
        Def { world: 'A', kw: Then, id: "ex_slice", how: Expr("all of {word} {word} {word}", r"^all of ([^\s]+) ([^\s]+) ([^\s]+)$"), expect: |g, _| Ok(format!("{g:?}")) },
        Def { world: 'A', kw: Given, id: "multi", how: Expr("{word} is {int}", r"^([^\s]+) is ((?:-?\d+)|(?:\d+))$"), expect: |g, _| g[1].parse::<i64>().map(|n| format!("{:?},{n:?}", g[0])).map_err(|_| "can not be parsed".into()) },
        Def { world: 'A', kw: When, id: "multi", how: Re(r"^(\S+) is (\d+)$"), expect: |g, _| g[1].parse::<i64>().map(|n| format!("{:?},{n:?}", g[0])).map_err(|_| "can not be parsed".into()) },
        Def { world: 'A', kw: Then, id: "ex_anonymous", how: Expr("anything {}", r"^anything (.*)$"), expect: |g, _| Ok(format!("{:?}", g[0])) },
        Def { world: 'A', kw: Then, id: "ex_escaped", how: Expr("escaped \\{brace} and \\(paren)", r"^escaped \{brace\} and \(paren\)$"), expect: none },
        Def { world: 'A', kw: Given, id: "ex_string_then_int", how: Expr("{string} owes {int} coin(s)", r#"^(?:"([^"\\]*(?:\\.[^"\\]*)*)"|'([^'\\]*(?:\\.[^'\\]*)*)') owes ((?:-?\d+)|(?:\d+)) coin(?:s)?$"#), expect: |g, _| g[2].parse::<u32>().map(|n| format!("{:?},{n:?}", first_nonempty(&[&g[0], &g[1]]))).map_err(|_| "can not be parsed".into()) },
        Def { world: 'A', kw: When, id: "ex_two_strings", how: Expr("{string} pays {string} at {word}", r#"^(?:"([^"\\]*(?:\\.[^"\\]*)*)"|'([^'\\]*(?:\\.[^'\\]*)*)') pays (?:"([^"\\]*(?:\\.[^"\\]*)*)"|'([^'\\]*(?:\\.[^'\\]*)*)') at ([^\s]+)$"#), expect: |g, _| Ok(format!("{:?},{:?},{:?}", first_nonempty(&[&g[0], &g[1]]), first_nonempty(&[&g[2], &g[3]]), g[4])) },
        Def { world: 'A', kw: When, id: "ex_custom_then_more", how: Expr("{qty} of {word} for {int}", r"^(?:(\d+) pcs|(few|many)) of ([^\s]+) for ((?:-?\d+)|(?:\d+))$"), expect: |g, _| {
            let s = first_nonempty(&[&g[0], &g[1]]);
            let q = match s { "few" | "many" => format!("Vague({s:?})"), n => match n.parse::<u32>() { Ok(n) => format!("Exact({n})"), Err(_) => return Err("can not be parsed".into()) } };
            g[3].parse::<i32>().map(|p| format!("{q},{:?},{p:?}", g[2])).map_err(|_| "can not be parsed".into())
        } },
        Def { world: 'A', kw: Then, id: "ex_multi_slice", how: Expr("{string} likes {string} and {word}", r#"^(?:"([^"\\]*(?:\\.[^"\\]*)*)"|'([^'\\]*(?:\\.[^'\\]*)*)') likes (?:"([^"\\]*(?:\\.[^"\\]*)*)"|'([^'\\]*(?:\\.[^'\\]*)*)') and ([^\s]+)$"#), expect: |g, _| Ok(format!("{:?}", vec![first_nonempty(&[&g[0], &g[1]]).to_owned(), first_nonempty(&[&g[2], &g[3]]).to_owned(), g[4].clone()])) },
        Def { world: 'A', kw: Then, id: "re_alt_groups", how: Re(r"^(?:a(\d)|b(\d)) then (\w+)$"), expect: |g, _| Ok(format!("{:?},{:?},{:?}", g[0], g[1], g[2])) },
        Def { world: 'A', kw: Given, id: "re_named_prefix_typed", how: Re(r"^range (?P<x_min>\d+)\.\.(?P<x_max>\d+) of (?P<x_unit>\w+)$"), expect: |g, _| match (g[0].parse::<u32>(), g[1].parse::<u32>()) { (Ok(a), Ok(b)) => Ok(format!("{a:?},{b:?},{:?}", g[2])), _ => Err("can not be parsed".into()) } },
        Def { world: 'A', kw: When, id: "re_named_prefix_slice", how: Re(r"^user (?P<user_name>\w+) id (?P<user_id>\d+)$"), expect: |g, _| Ok(format!("{g:?}")) },
        Def { world: 'B', kw: Given, id: "b_lit", how: Literal("a literal step"), expect: none },
        Def { world: 'B', kw: When, id: "b_re", how: Re(r"^only b (\d+)$"), expect: |g, _| g[0].parse::<u16>().map(|n| format!("{n:?}")).map_err(|_| "can not be parsed".into()) },
        Def { world: 'B', kw: Then, id: "b_re", how: Re(r"^only b (\d+)$"), expect: |g, _| g[0].parse::<u16>().map(|n| format!("{n:?}")).map_err(|_| "can not be parsed".into()) },
    ]
}

/// Capture groups (1..) if the definition must match `text`.
fn def_matches(d: &Def, text: &str) -> Option<Vec<String>> {
    match &d.how {
        How::Literal(l) => (*l == text).then(Vec::new),
        How::Re(src) | How::Expr(_, src) => {
            let re = Regex::new(src).unwrap();
            re.captures(text).map(|c| (1..c.len()).map(|i| c.get(i).map_or(String::new(), |m| m.as_str().to_owned())).collect())
        }
    }
}

const CORPUS: &[&str] = &[
    // literals and their near-misses
    "a literal step", "a literal step ", " a literal step", "xa literal step", "a literal stepx", "A literal step", "a literal  step",
    "literal with (parens) and . dots? [x] a|b ^$ {n} \\d+", "literal with parens and . dots? [x] a|b ^$ {n} \\d+", "literal with (parens) and x dots? [x] a|b ^$ {n} \\d+",
    "literal with (parens) and . dot [x] a|b ^$ {n} \\d+", "literal with (parens) and . dots? [x] a ^$ {n} \\d+", "literal with (parens) and . dots? [x] a|b ^$ {n} 12",
    "costs 5$", "costs 5$ tomorrow", "it costs 5$", "costs 5", "^caret first and last$", "caret first and last", "x ^caret first and last$", "^caret first and last$ y",
    "step with ctx", "step named ctx", "tri one", "tri two", "tri three", "tri", "literal result err",
    // regex
    "7 apples", "07 apples", "7 apples!", "x 7 apples", "99999999999 apples", "bob owes ann 5", "so bob owes ann 5 bucks", "bob owes ann", "bob owes ann -5",
    "slice a b c", "slice a b", "slice a b c d", "ints 1,2", "ints 1,300", "ints 1", "opt 1", "opt 1 and 2", "opt 1 and", "opt",
    "bob logs in with secret", "bob logs in", "ann and bob log out", "due on 2024-05-17", "due on 2024-5-17",
    "paren res ok", "paren res err", "macro made err", "macro made ok",
    "alias res ok", "alias res err", "alias async ok", "alias async err", "alias async", "alias literal err",
    "res ok", "res err", "res maybe", "async res ok", "async res err", "step arg 5", "step arg 500", "named step x y", "named step x",
    "num 12", "num abc", "num -1", "num 4294967296", "éüü tail text", "éü ", "eüü x", "é x",
    // expressions
    "bob has 3 items", "bob has 1 item", "bob has -2 items", "bob has three items", "bob has 3 itemss", "bob smith has 3 items", "bob has 3 item(s)",
    "price is 1.5", "price is -0.25", "price is 3", "price is .5", "price is 1e3", "price is abc", "price is 1.5 ",
    "say \"hi there\"", "say 'single'", "say \"\"", "say hi", "say \"unterminated", "say \"a\\\"b\"",
    "pick red", "pick green", "pick blue", "pick yellow", "pick red/green/blue", "pick ",
    "order 5 pcs now", "order few now", "order many now", "order some now", "order 5 now", "order 99999999999 pcs now",
    "swap USD for EUR at 5 pcs", "swap USD for EUR at few", "swap USD for EUR at GBP", "swap USD for 5 pcs at few", "swap usd for EUR at few",
    "5 pcs then many in USD or EUR", "few then 7 pcs in USD or many", "few then USD in USD or EUR",
    "big go \"one\" 2 3 4 5 6 7 8 9 'ten' end", "big go 'one' 2 3 4 5 6 7 8 9 \"ten\" end", "big go \"one\" 2 3 4 5 6 7 8 x 'ten' end", "big go \"one\" 2 3 4 5 6 7 8 9 ten end",
    "bigs 'p' \"q\" a b c d e f g h 'r' z", "bigs \"p\" \"q\" a b c d e f g h \"r\" z", "bigs 'p' q a b c d e f g h 'r' z",
    "pay in USD", "pay in usd", "pay in EURO", "1 and 2 and x", "-1 and 22 and yy", "1 and x and 2", "all of a b c", "all of a b",
    "foo is 5", "foo is -5", "foo is bar", "anything goes here", "anything ", "anything", "escaped {brace} and (paren)", "escaped brace and paren", "escaped \\{brace} and \\(paren)",
    // multi-group parameters followed by more arguments
    "\"alice\" owes 5 coins", "'alice' owes 1 coin", "\"alice\" owes x coins", "alice owes 5 coins",
    "\"a\" pays \"b\" at noon", "'a' pays \"b\" at noon", "\"a\" pays 'b' at noon", "'a' pays 'b' at noon", "\"\" pays \"b\" at noon",
    "5 pcs of apples for 3", "few of pears for -2", "many of x for y", "5 of apples for 3",
    "the meow meets the flap", "the purr meets the screech", "the purr meets the purr", "the flap meets the flap", "the meow meets the",
    "3 plus 4 apples", "3 plus x apples", "99999999999 plus 1 apples", "x then y then z stop", "x then y stop",
    "maybe a c", "maybe", "maybe a b c", "maybe b", "maybe c", "maybe a  c",
    "\"\" likes 'y' and few", "'x' likes \"\" and few", "\"\" likes '' and few",
    "\"x\" likes 'y' and few", "'x' likes \"y\" and 7", "\"x\" likes y and none",
    "a1 then go", "b2 then stop", "c3 then no",
    // named groups sharing a name prefix
    "range 3..9 of cm", "range 3..x of cm", "user bob id 7", "user bob id x",
    // second world
    "only b 7", "only b 70000", "only b x",
    "",
];

fn gstep(kw: Kw, text: &str) -> gherkin::Step {
    gherkin::Step {
        keyword: match kw { Kw::Given => "Given ", Kw::When => "When ", Kw::Then => "Then " }.into(),
        ty: match kw { Kw::Given => gherkin::StepType::Given, Kw::When => gherkin::StepType::When, Kw::Then => gherkin::StepType::Then },
        value: text.to_owned(),
        docstring: None,
        table: None,
        span: gherkin::Span { start: 0, end: 0 },
        position: gherkin::LineCol { line: 1, col: 1 },
    }
}

fn panic_text(p: Box<dyn std::any::Any + Send>) -> String {
    p.downcast_ref::<String>().cloned().or_else(|| p.downcast_ref::<&str>().map(|s| (*s).to_owned())).unwrap_or_else(|| "<non-string payload>".into())
}

struct Out {
    viol: Vec<Value>,
    evals: u64,
    nontrivial: Vec<u64>,
    samples: Vec<Value>,
    counters: serde_json::Map<String, Value>,
}

fn fnv(s: &str) -> u64 {
    s.bytes().fold(0xcbf2_9ce4_8422_2325u64, |h, b| (h ^ u64::from(b)).wrapping_mul(0x0000_0100_0000_01b3))
}

fn check_world<W>(world: char, mk: impl Fn() -> W, table: &[Def], out: &mut Out)
where
    W: cucumber::World + fmt::Debug + WorldInventory,
{
    let coll = match panic::catch_unwind(W::collection) {
        Ok(c) => c,
        Err(p) => {
            out.viol.push(json!({"property": "C19", "signature": "registration:collection-panicked", "detail": format!("World::collection() of Z{world} panicked: {}", panic_text(p)), "case_index": 0, "witness": null}));
            return;
        }
    };
    for kw in [Kw::Given, Kw::When, Kw::Then] {
        for text in CORPUS {
            out.evals += 1;
            let st = gstep(kw, text);
            let exp: Vec<(&Def, Vec<String>)> = table.iter().filter(|d| d.world == world && d.kw == kw).filter_map(|d| def_matches(d, text).map(|g| (d, g))).collect();
            let near = table.iter().any(|d| d.world == world && d.kw == kw && match &d.how {
                How::Literal(l) => {
                    let head: String = text.chars().take(3).collect();
                    let lhead: String = l.chars().take(5).collect();
                    l.chars().count().abs_diff(text.chars().count()) <= 2 && (l.starts_with(&head) || text.contains(&lhead))
                }
                How::Re(_) | How::Expr(..) => false,
            });
            if !exp.is_empty() || near {
                out.nontrivial.push(fnv(&format!("{world}|{kw:?}|{text}")));
            }
            let mut bad = |sig: &str, detail: String| {
                out.viol.push(json!({"property": "C19", "signature": sig, "detail": detail, "case_index": 0,
                    "witness": {"world": world.to_string(), "keyword": format!("{kw:?}"), "text": text}}));
            };
            match (exp.len(), coll.find(&st)) {
                (0, Ok(None)) => {}
                (1, Ok(Some((f, _caps, loc, ctx)))) => {
                    let (d, groups) = &exp[0];
                    if loc.is_none_or(|l| !l.path.ends_with("main.rs")) {
                        bad("dispatch:location", format!("definition {} carries location {loc:?}", d.id));
                    }
                    LOG.with(|l| l.borrow_mut().clear());
                    let mut w = mk();
                    QUIET.store(true, std::sync::atomic::Ordering::SeqCst);
                    let res = panic::catch_unwind(AssertUnwindSafe(|| block_on(f(&mut w, ctx))));
                    QUIET.store(false, std::sync::atomic::Ordering::SeqCst);
                    let log = LOG.with(|l| l.borrow().clone());
                    let want = (d.expect)(groups, text);
                    match (want, res) {
                        (Ok(args), Ok(())) => {
                            if log != vec![format!("{}|{args}", d.id)] {
                                bad("dispatch:arguments", format!("{world} {kw:?} '{text}': invoking the selected function recorded {log:?}, expected [{}|{args}]", d.id));
                            }
                        }
                        (Err(msg), Err(p)) => {
                            let got = panic_text(p);
                            if !got.contains(&msg) {
                                bad("dispatch:failure-message", format!("'{text}': step failed with {got:?}, expected a message containing {msg:?}"));
                            }
                            // the function itself may have run (returned Err) or not (parse failure)
                            if log.iter().any(|l| !l.starts_with(&format!("{}|", d.id))) {
                                bad("dispatch:wrong-function", format!("'{text}': {log:?} ran instead of {}", d.id));
                            }
                        }
                        (Ok(args), Err(p)) => bad("dispatch:spurious-failure", format!("'{text}' -> {}({args}) must pass but the step future panicked: {}", d.id, panic_text(p))),
                        (Err(msg), Ok(())) => bad("dispatch:error-ignored", format!("'{text}' -> {}: a parse failure / returned Err ({msg}) must fail the step, but it passed (log {log:?})", d.id)),
                    }
                }
                (n, Err(e)) if n >= 2 => {
                    if e.possible_matches.len() != n {
                        bad("match:ambiguity-count", format!("'{text}': {} candidates reported, {n} definitions match", e.possible_matches.len()));
                    }
                }
                (n, res) => {
                    let got = match res {
                        Ok(None) => "no definition".to_owned(),
                        Ok(Some((f, _, _, ctx))) => {
                            LOG.with(|l| l.borrow_mut().clear());
                            let mut w = mk();
                            QUIET.store(true, std::sync::atomic::Ordering::SeqCst);
                            let _ = panic::catch_unwind(AssertUnwindSafe(|| block_on(f(&mut w, ctx))));
                            QUIET.store(false, std::sync::atomic::Ordering::SeqCst);
                            format!("one definition ({:?})", LOG.with(|l| l.borrow().clone()))
                        }
                        Err(e) => format!("ambiguity between {:?}", e.possible_matches.iter().map(|(r, _)| r.to_string()).collect::<Vec<_>>()),
                    };
                    bad(
                        "match:selection",
                        format!("{world} {kw:?} '{text}': as written {n} definition(s) match ({:?}) but the collection found {got}", exp.iter().map(|(d, _)| d.id).collect::<Vec<_>>()),
                    );
                }
            }
        }
    }
}

/// Hands out prepared features.
struct Feats(Vec<gherkin::Feature>);
impl cucumber::Parser<()> for Feats {
    type Cli = cucumber::cli::Empty;
    type Output = futures::stream::Iter<std::vec::IntoIter<cucumber::parser::Result<gherkin::Feature>>>;
    fn parse(self, (): (), _: cucumber::cli::Empty) -> Self::Output {
        futures::stream::iter(self.0.into_iter().map(Ok).collect::<Vec<_>>())
    }
}

/// What the runner reported for the only step of each scenario: (scenario name, outcome).
#[derive(Clone, Default)]
struct Outcomes(std::rc::Rc<RefCell<Vec<(String, String)>>>);
impl<W: cucumber::World + fmt::Debug> cucumber::Writer<W> for Outcomes {
    type Cli = cucumber::cli::Empty;
    async fn handle_event(&mut self, ev: cucumber::parser::Result<cucumber::Event<cucumber::event::Cucumber<W>>>, _: &cucumber::cli::Empty) {
        use cucumber::event::{Cucumber, Feature, Rule, Scenario, Step, StepError};
        let Ok(ev) = ev else { return };
        let (sc, ev) = match ev.value {
            Cucumber::Feature(_, Feature::Scenario(sc, ev)) | Cucumber::Feature(_, Feature::Rule(_, Rule::Scenario(sc, ev))) => (sc, ev),
            _ => return,
        };
        let what = match ev.event {
            Scenario::Step(_, Step::Passed(..)) => "passed".to_owned(),
            Scenario::Step(_, Step::Skipped) => "skipped".to_owned(),
            Scenario::Step(_, Step::Failed(_, _, _, err)) => match err {
                StepError::NotFound => "failed:not-found".to_owned(),
                StepError::AmbiguousMatch(e) => format!("failed:ambiguous:{}", e.possible_matches.len()),
                StepError::Panic(p) => format!(
                    "failed:panic:{}",
                    p.downcast_ref::<String>().cloned().or_else(|| p.downcast_ref::<&str>().map(|s| (*s).to_owned())).unwrap_or_else(|| "<non-string payload>".into())
                ),
            },
            _ => return,
        };
        self.0.borrow_mut().push((sc.name.clone(), what));
    }
}
impl cucumber::writer::Normalized for Outcomes {}

/// The same table through the real runner: every corpus text is the only step of a scenario of its
/// own, run by `W::cucumber()` - the steps the attributes registered, the stock runner - into a
/// recording writer. A parse failure or a returned `Err` must *fail the step* (and only it).
fn check_world_e2e<W>(world: char, table: &[Def], out: &mut Out)
where
    W: cucumber::World + fmt::Debug + WorldInventory + 'static,
{
    let zero = gherkin::LineCol { line: 1, col: 1 };
    let span = gherkin::Span { start: 0, end: 0 };
    let mut feats = Vec::new();
    let mut names: Vec<(String, Kw, &str)> = Vec::new();
    for kw in [Kw::Given, Kw::When, Kw::Then] {
        let scenarios = CORPUS
            .iter()
            .enumerate()
            .map(|(i, text)| {
                let name = format!("{kw:?} #{i}");
                names.push((name.clone(), kw, text));
                gherkin::Scenario { keyword: "Scenario".into(), name, description: None, steps: vec![gstep(kw, text)], examples: Vec::new(), tags: Vec::new(), span, position: zero }
            })
            .collect();
        feats.push(gherkin::Feature {
            keyword: "Feature".into(),
            name: format!("zoo {kw:?}"),
            description: None,
            background: None,
            scenarios,
            rules: Vec::new(),
            tags: Vec::new(),
            span,
            position: zero,
            path: None,
        });
    }
    let seen = Outcomes::default();
    QUIET.store(true, std::sync::atomic::Ordering::SeqCst);
    LOG.with(|l| l.borrow_mut().clear());
    let run = panic::catch_unwind(AssertUnwindSafe(|| {
        block_on(
            W::cucumber::<std::path::PathBuf>()
                .with_parser(Feats(feats))
                .with_writer(seen.clone())
                .with_cli(cucumber::cli::Opts::<cucumber::cli::Empty, cucumber::runner::basic::Cli, cucumber::cli::Empty, cucumber::cli::Empty>::default())
                .max_concurrent_scenarios(1)
                .run(()),
        )
    }));
    QUIET.store(false, std::sync::atomic::Ordering::SeqCst);
    let mut bad = |sig: &str, detail: String, text: &str| {
        out.viol.push(json!({"property": "C19", "signature": sig, "detail": detail, "case_index": 0, "witness": {"world": world.to_string(), "through": "W::cucumber().run()", "text": text}}));
    };
    if let Err(p) = run {
        let done = seen.0.borrow().len();
        let at = names.get(done).map_or("<end>", |n| n.2);
        bad("run:panicked", format!("the whole run of world Z{world} panicked after {done} steps (next text {at:?}): {}", panic_text(p)), at);
        return;
    }
    let seen = seen.0.borrow();
    let got: std::collections::HashMap<&str, Vec<&str>> = seen.iter().fold(std::collections::HashMap::new(), |mut m, (n, o)| {
        m.entry(n.as_str()).or_default().push(o.as_str());
        m
    });
    for (name, kw, text) in &names {
        out.evals += 1;
        let exp: Vec<(&Def, Vec<String>)> = table.iter().filter(|d| d.world == world && d.kw == *kw).filter_map(|d| def_matches(d, text).map(|g| (d, g))).collect();
        let outcomes = got.get(name.as_str()).cloned().unwrap_or_default();
        if outcomes.len() != 1 {
            bad("run:step-results", format!("{kw:?} '{text}': {} result events for its only step ({outcomes:?})", outcomes.len()), text);
            continue;
        }
        let o = outcomes[0];
        match exp.len() {
            0 => {
                if o != "skipped" {
                    bad("run:outcome", format!("{kw:?} '{text}' matches no definition, the runner reported {o}"), text);
                }
            }
            1 => {
                let (d, groups) = &exp[0];
                out.nontrivial.push(fnv(&format!("run|{world}|{kw:?}|{text}")));
                match (d.expect)(groups, text) {
                    Ok(_) => {
                        if o != "passed" {
                            bad("run:outcome", format!("{kw:?} '{text}' -> {} must pass, the runner reported {o}", d.id), text);
                        }
                    }
                    Err(msg) => {
                        if !(o.starts_with("failed:panic:") && o.contains(&msg)) {
                            bad("run:outcome", format!("{kw:?} '{text}' -> {}: a parse failure / returned Err ({msg}) must fail the step with that message, the runner reported {o}", d.id), text);
                        }
                    }
                }
            }
            n => {
                if o != format!("failed:ambiguous:{n}") {
                    bad("run:outcome", format!("{kw:?} '{text}' matches {n} definitions, the runner reported {o}"), text);
                }
            }
        }
    }
    out.counters.insert(format!("c19.steps_run_through_the_runner_Z{world}"), json!(names.len()));
}

fn count<T: 'static>() -> usize
where
    T: cucumber::codegen::inventory::Collect,
{
    cucumber::codegen::inventory::iter::<T>.into_iter().count()
}

fn main() {
    let args: Vec<String> = std::env::args().collect();
    let outp = args.iter().position(|a| a == "--out").and_then(|i| args.get(i + 1)).cloned().unwrap_or_else(|| "/dev/stdout".into());
    panic::set_hook(Box::new(|info| {
        if !QUIET.load(std::sync::atomic::Ordering::SeqCst) {
            eprintln!("zoo harness panic: {info}");
        }
    }));
    let table = defs();
    let mut out = Out { viol: Vec::new(), evals: 0, nontrivial: Vec::new(), samples: Vec::new(), counters: serde_json::Map::new() };

    // registration: exactly once per attribute, under exactly that keyword, for its World
    let want = |w: char, k: Kw| table.iter().filter(|d| d.world == w && d.kw == k).count();
    let regs = [
        ('A', Kw::Given, count::<<ZA as WorldInventory>::Given>()),
        ('A', Kw::When, count::<<ZA as WorldInventory>::When>()),
        ('A', Kw::Then, count::<<ZA as WorldInventory>::Then>()),
        ('B', Kw::Given, count::<<ZB as WorldInventory>::Given>()),
        ('B', Kw::When, count::<<ZB as WorldInventory>::When>()),
        ('B', Kw::Then, count::<<ZB as WorldInventory>::Then>()),
    ];
    for (w, k, n) in regs {
        out.evals += 1;
        out.counters.insert(format!("c19.registered_{w}_{k:?}"), json!(n));
        if n != want(w, k) {
            out.viol.push(json!({"property": "C19", "signature": "registration:count", "detail": format!("World Z{w}: {n} {k:?} definitions registered, {} attributes written", want(w, k)), "case_index": 0, "witness": null}));
        }
    }
    check_world('A', ZA::default, &table, &mut out);
    check_world('B', || ZB, &table, &mut out);
    check_world_e2e::<ZA>('A', &table, &mut out);
    check_world_e2e::<ZB>('B', &table, &mut out);
    out.samples.push(json!({"definitions": table.iter().map(|d| format!("Z{} {:?} {} :: {}", d.world, d.kw, d.id, match &d.how { How::Literal(l) => format!("\"{l}\""), How::Re(r) => format!("regex = {r}"), How::Expr(e, _) => format!("expr = {e}") })).collect::<Vec<_>>(), "corpus_size": CORPUS.len()}));
    let _ = ZA::default().n;
    let res = json!({
        "status": "done", "evaluations": out.evals,
        "nontrivial": {"C19": out.nontrivial}, "nontrivial_cases": {"C19": out.nontrivial.len()},
        "counters": out.counters, "interleavings": [], "samples": {"zoo": out.samples}, "inconclusive": [],
        "violations": out.viol,
    });
    std::fs::write(&outp, res.to_string()).expect("write");
}
